#!/bin/bash
# Build the checker's interpreter offline: a Python 3.12 venv layered over /venv (the repository's own
# dependencies) plus the solver/contract tooling from the local wheelhouse.  Idempotent; safe under concurrency.
set -e
cd "$(dirname "$0")"
V=.venv
if [ -x $V/bin/python ] && [ -f $V/.ok ]; then exit 0; fi
exec 9> .venv.lock
flock 9
if [ -x $V/bin/python ] && [ -f $V/.ok ]; then exit 0; fi
rm -rf $V
/venv/bin/python -m venv $V
PIP_NO_INDEX=1 $V/bin/python -m pip install -q --no-index --find-links /opt/veriftools/wheels z3-solver cvc5 mpmath icontract deal crosshair-tool >/dev/null 2>.venv.err || { cat .venv.err; exit 3; }
SP=$($V/bin/python -c "import sysconfig; print(sysconfig.get_paths()['purelib'])")
echo "import site; site.addsitedir('/venv/lib/python3.12/site-packages')" > $SP/zz_repo_deps.pth
$V/bin/python -c "import z3, cvc5, mpmath, numpy, awkward, sympy; import vector" 
touch $V/.ok
