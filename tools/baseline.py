#!/usr/bin/env python3
"""Run the pinned test suite of /repo (guard off) and compare with /root/.vp/BASELINE.json stable_pass.
usage: tools/baseline.py [repo_dir]   exit 0 iff every stable_pass test passes."""
import json, os, subprocess, sys, tempfile, xml.etree.ElementTree as ET
repo = sys.argv[1] if len(sys.argv) > 1 else "/repo"
base = json.load(open("/root/.vp/BASELINE.json"))
d = tempfile.mkdtemp(prefix="vvbase", dir="/var/tmp")
jx = os.path.join(d, "j.xml")
env = dict(os.environ); env.pop("SCIKIT_HEP_VECTOR_VERIF", None)
subprocess.run(["/venv/bin/python", "-m", "pytest", "-ra", "-q", "-p", "no:cacheprovider", "--timeout=900",
                "--continue-on-collection-errors", f"--junitxml={jx}"], cwd=repo, env=env,
               stdout=subprocess.DEVNULL, stderr=subprocess.DEVNULL)
ok = set()
for tc in ET.parse(jx).getroot().iter("testcase"):
    if not any(ch.tag in ("failure", "error", "skipped") for ch in tc):
        ok.add(f"{tc.get('classname')}::{tc.get('name')}")
missing = [t for t in base["stable_pass"] if t not in ok]
import shutil; shutil.rmtree(d)
print(f"stable_pass={len(base['stable_pass'])} passing_now={len(ok)} missing={len(missing)}")
for m in missing[:40]: print("  NOT PASSING:", m)
sys.exit(1 if missing else 0)
