#!/usr/bin/env python3
"""apply every confirmed seed to /repo in turn, run the listed checks, record which report a violation -> seeded/matrix.json"""
import json, os, subprocess, sys
os.chdir("/verif")
allp = ["C01","C02","C03","C04","C05","C06","C08","C09","C10","C11","C12","C13","C14","C15","C16","C17","C18","C19","C20"]
extra = {"C01": ["C11","C02","C15"], "C02": ["C10", "C01"], "C09": ["C01"], "C10": ["C02","C05"], "C11": ["C03","C05"], "C12": ["C01"], "C13": ["C01","C05"], "C16": ["C03"], "C20": ["C16"], "C03": ["C04"], "C14": ["C04"], "C04": ["C14"], "C05": ["C03"], "C18": ["C03","C05"], "C19": ["C03"]}
seeds = sorted(d for d in os.listdir("seeded") if os.path.isdir(f"seeded/{d}") and os.path.exists(f"seeded/{d}/meta.json"))
own_only = "--own" in sys.argv
only = [a for a in sys.argv[1:] if not a.startswith("--")]
matrix = json.load(open("seeded/matrix.json")) if os.path.exists("seeded/matrix.json") else {}
for s in seeds:
    if only and s not in only: continue
    if json.load(open(f"seeded/{s}/meta.json")).get("neutralised_by"):
        print(s, "neutralised (see meta.json)"); matrix[s] = {"neutralised": True}; continue
    assert subprocess.run("git -C /repo diff --quiet", shell=True).returncode == 0
    if subprocess.run(f"git -C /repo apply /verif/seeded/{s}/patch.diff", shell=True).returncode != 0:
        print(s, "patch does not apply"); continue
    row = {}
    try:
        for c in [s[:3]] + ([] if own_only else extra.get(s[:3], [])):
            r = subprocess.run(f"VERIF_SCRATCH=1 timeout 1200 ./check {c}", shell=True, capture_output=True, text=True)
            v = [l for l in r.stdout.splitlines() if l.startswith("VIOLATION")]
            row[c] = dict(exit=r.returncode, violations=len(v), first=(v[0].split("obligation=")[-1][:140] if v else None))
    finally:
        subprocess.run("git -C /repo checkout -- .", shell=True)
    if own_only and isinstance(matrix.get(s), dict):
        merged = dict(matrix[s]); merged.update(row); row = merged
    matrix[s] = row
    print(s, {c: (x["exit"], x["violations"]) for c, x in row.items()}, flush=True)
    json.dump(matrix, open("seeded/matrix.json", "w"), indent=1)
