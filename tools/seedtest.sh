#!/bin/bash
# tools/seedtest.sh <patch.diff> <check id>...   apply a seeded change to /repo, run checks (scratch evidence), undo
P="$1"; shift
cd /verif
git -C /repo diff --quiet || { echo "/repo not clean"; exit 9; }
git -C /repo apply "$P" || { echo "patch does not apply"; exit 9; }
for c in "$@"; do
  VERIF_SCRATCH=1 timeout 1200 ./check $c > /var/tmp/seedtest_$c.log 2>&1; rc=$?
  echo "$c exit=$rc violations=$(grep -c '^VIOLATION' /var/tmp/seedtest_$c.log) :: $(grep '^VIOLATION' /var/tmp/seedtest_$c.log | head -2 | sed 's/.*obligation=//' | cut -c1-110 | tr '\n' ';')"
done
git -C /repo checkout -- .
