import os, sys; sys.path.insert(0, os.path.join(os.path.dirname(os.path.abspath(__file__)), ".."))
import time, collections
import vv
from vv import npsym, common as C, objsym as O
jobs = [(s, m, ((3,), (2, 2))) for s in O.systems() for m in (False, True)]
t = time.time(); res = C.pool_map(npsym.shard, jobs); print("wall", time.time() - t, "obligations", sum(r[0] for r in res), "skipped", sum(r[2] for r in res))
bad = [x for r in res for x in r[1]]
print("failed", len(bad))
g = collections.OrderedDict()
for p, oid, d in bad: g.setdefault(oid.split("[")[0], []).append((oid, d))
for k, v in sorted(g.items(), key=lambda kv: -len(kv[1]))[:40]: print(len(v), k, "::", v[0][0][-80:], str(v[0][1])[:300])
