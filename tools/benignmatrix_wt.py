#!/usr/bin/env python3
"""false-alarm test on scratch worktrees: every behaviour-preserving patch of seeded/benign/<id>/ against the listed checks (default: own property, C16, C20);
   every check must exit 0 with no VIOLATION / UNDECIDED / CHECKER-ERROR line.   usage: benignmatrix_wt.py [-j N] [-c C01,C05] [id ...]"""
import json, os, re, subprocess, sys
from concurrent.futures import ThreadPoolExecutor
os.chdir("/verif")
args = sys.argv[1:]
j, extra = 4, ["C16", "C20"]
while args and args[0] in ("-j", "-c"):
    if args[0] == "-j": j = int(args[1])
    else: extra = [c for c in args[1].split(",") if c]
    args = args[2:]
ids = sorted(d for d in os.listdir("seeded/benign") if os.path.isdir(f"seeded/benign/{d}"))
if args:
    ids = [i for i in ids if i in args]
def run(s):
    checks = list(dict.fromkeys([s[:3]] + extra))
    r = subprocess.run(["tools/seedwt.sh", f"/verif/seeded/benign/{s}/patch.diff"] + checks, capture_output=True, text=True)
    row = {}
    for line in r.stdout.splitlines():
        m = re.match(r"\S+ (C\d\d) exit=(\d+) violations=(\d+) undecided=(\d+) :: (.*)", line)
        if m:
            row[m.group(1)] = dict(exit=int(m.group(2)), violations=int(m.group(3)), undecided=int(m.group(4)), first=m.group(5)[:160] or None)
    if not row:
        row = dict(error=(r.stdout + r.stderr)[-300:])
    print(s, {c: (x.get("exit"), x.get("violations"), x.get("undecided")) if isinstance(x, dict) else x for c, x in row.items()}, flush=True)
    return s, row
with ThreadPoolExecutor(j) as ex:
    out = list(ex.map(run, ids))
path = "seeded/benign/matrix.json"
matrix = json.load(open(path)) if os.path.exists(path) else {}
for s, row in out:
    cur = matrix.get(s) if isinstance(matrix.get(s), dict) else {}
    cur.update(row); matrix[s] = cur
json.dump(matrix, open(path, "w"), indent=1)
alarms = [(s, c) for s, row in out for c, x in row.items() if isinstance(x, dict) and (x["exit"] != 0 or x["violations"] or x["undecided"])]
print("alarms:", alarms)
