#!/usr/bin/env python3
"""like seedmatrix.py --own, but on scratch worktrees (tools/seedwt.sh) and several seeds at a time: /repo itself is not touched.
   usage: seedmatrix_wt.py [-j N] [seed ...]     results merged into seeded/matrix.json"""
import json, os, re, subprocess, sys
from concurrent.futures import ThreadPoolExecutor
os.chdir("/verif")
args = sys.argv[1:]
j = 4
if args and args[0] == "-j":
    j = int(args[1]); args = args[2:]
seeds = sorted(d for d in os.listdir("seeded") if os.path.isdir(f"seeded/{d}") and os.path.exists(f"seeded/{d}/meta.json") and re.fullmatch(r"C\d\d[a-z]?", d))
if args:
    seeds = [s for s in seeds if s in args]
seeds = [s for s in seeds if not json.load(open(f"seeded/{s}/meta.json")).get("neutralised_by")]
def run(s):
    r = subprocess.run(["tools/seedwt.sh", s, s[:3]], capture_output=True, text=True)
    m = re.search(r"exit=(\d+) violations=(\d+) undecided=(\d+) :: (.*)", r.stdout)
    row = dict(exit=int(m.group(1)), violations=int(m.group(2)), first=(m.group(4).split(";")[0][:140] or None)) if m else dict(exit=-1, violations=0, first=r.stdout[-200:] + r.stderr[-200:])
    print(s, row, flush=True)
    return s, row
with ThreadPoolExecutor(j) as ex:
    out = list(ex.map(run, seeds))
matrix = json.load(open("seeded/matrix.json")) if os.path.exists("seeded/matrix.json") else {}
for s, row in out:
    cur = matrix.get(s) if isinstance(matrix.get(s), dict) else {}
    cur[s[:3]] = row
    matrix[s] = cur
json.dump(matrix, open("seeded/matrix.json", "w"), indent=1)
missed = [s for s, row in out if row["exit"] != 1 or not row["violations"]]
print("missed by own check:", missed)
