import os, sys; sys.path.insert(0, os.path.join(os.path.dirname(os.path.abspath(__file__)), ".."))
import sys, vv, random, time
from vv import ops, enginea, symreal as S, modular
from vv.views import *
modular.ensure_installed()
pk, mod, sigs = sys.argv[1], sys.argv[2], sys.argv[3].split(",")
sig=tuple(BYNAME[s] for s in sigs)
tcs=tuple(sys.argv[4].split(",")) if len(sys.argv)>4 and sys.argv[4] else ()
j=enginea.VariantJob(pk,mod,sig)
cases=list(j.cases())
label,cname,kinds,tc=[c for c in cases if (not tcs or c[3]==tcs)][0]
print("case",label)
ctx,scal,sargs,coords,views=j.setup_case(cname, kinds, tc)
ref=j.cfn(S.LIB,*sargs,*[c for v in views for c in v])
scalar=j.returns in ([float],[bool])
if not scalar:
    oc=[r for r in j.returns if r is not None]; rc=[r for r in j.creturns if r is not None]
    refv=view(rc,list(ref))
    for f in ops.result_rep(oc, refv): ctx.hyp(f, pre=True)
got=j.fn(S.LIB,*sargs,*[c for cs in coords for c in cs])
for d,f in ctx.defs: print("DEF", d, S.f_str(f, ctx.name)[:300])
if not scalar:
    gv=view(oc,list(got))
    for nm,a,b in zip("xyzt",gv,refv):
        print(nm,"GOT",str(a)[:600]); print(nm,"REF",str(b)[:600])
else:
    print("GOT", got if not isinstance(got,S.B) else S.f_str(got.f,ctx.name)[:800]); print("REF", ref if not isinstance(ref,S.B) else S.f_str(ref.f,ctx.name)[:800])
for h in ctx.hyps: print("HYP", S.f_str(h, ctx.name)[:400])
