import os, sys; sys.path.insert(0, os.path.join(os.path.dirname(os.path.abspath(__file__)), ".."))
import importlib, time, json
import vv
from vv import common as C
from vv.props import lemma_prop
modname = sys.argv[1]; filt = sys.argv[2] if len(sys.argv) > 2 else ""
mod = importlib.import_module(modname)
args = [(modname, i) for i, j in enumerate(mod.LEMMAS) if filt in j.lid]
t=time.time(); res = C.pool_map(lemma_prop._lemma_worker, args); print("wall", time.time()-t, len(res))
res.sort(key=lambda r: -r["t"])
for r in res[:12]:
    print(r["id"], r["status"], r["t"], r.get("err",""), [(o["id"].split("/")[-1], o["status"], o["t"]) for o in r["obligations"] if o["t"]>1 or o["status"]!="proved"][:6])
