import os, sys; sys.path.insert(0, os.path.join(os.path.dirname(os.path.abspath(__file__)), ".."))
import time, vv
from vv import common as C, ops
from vv.props import c08
filt = sys.argv[1] if len(sys.argv) > 1 else ""
jobs = [(pk, n, sig) for pk, n, m in ops.all_modules() if n != "isclose" and filt in f"{pk}.{n}" for sig in m.dispatch_map]
t = time.time(); res = C.pool_map(c08.shadow_worker, jobs); print("wall", time.time() - t, len(jobs))
res.sort(key=lambda r: -r["t"])
for r in res[:14]: print(r["id"], r["status"], r["t"], r.get("err", ""), [(o["id"].split("/")[-1], o["status"], o["t"], o.get("note", "")[:40]) for o in r["obligations"] if o["status"] != "proved" or o["t"] > 1][:3])
print(c08.cauchy_schwarz_lemma()["obligations"])
