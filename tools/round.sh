#!/bin/bash
# tools/round.sh <name e.g. C08k> [extra checks...] : confirm a sub-agent's seed (from /tmp/seed_<name>) and run the own property's check (+ extras) on a scratch worktree
N="$1"; shift
P=${N:0:3}
cd /verif
python3 tools/confirm_seed.py $P $N /tmp/seed_$N > /var/tmp/round_$N.log 2>&1
tools/seedwt.sh $N $P "$@" >> /var/tmp/round_$N.log 2>&1
