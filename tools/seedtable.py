#!/usr/bin/env python3
"""regenerate the seed table of DESIGN.md 13.4 from seeded/*/meta.json and seeded/matrix.json"""
import json, os
os.chdir("/verif")
m = json.load(open("seeded/matrix.json"))
rows = []
for s in sorted(d for d in os.listdir("seeded") if os.path.isdir(f"seeded/{d}") and os.path.exists(f"seeded/{d}/meta.json")):
    meta = json.load(open(f"seeded/{s}/meta.json"))
    r = m.get(s, {})
    if r.get("neutralised") or meta.get("neutralised_by"):
        caught = "neutralised by fix a9137ff (demo passes with the change applied)"
    else:
        hit = [c for c, x in r.items() if x.get("violations")]
        own = s[:3]
        caught = ", ".join(([own] if own in hit else []) + [c for c in hit if c != own]) or "NOT DETECTED"
        miss = [c for c, x in r.items() if not x.get("violations")]
        if miss:
            caught += f" (also run, silent: {', '.join(miss)})"
    rows.append(f"| {s} | {meta.get('summary', '')} | {caught} |")
print("| seed | change | detected by (own property's check first) |\n|------|--------|------------------------------------------|")
print("\n".join(rows))
