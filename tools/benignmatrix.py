#!/usr/bin/env python3
"""apply every behaviour-preserving refactor of seeded/benign/<id>/patch.diff to /repo in turn and run the listed checks: every check must exit 0
(no VIOLATION line, no checker error) - a false-alarm test.  Results in seeded/benign/matrix.json"""
import json, os, subprocess, sys
os.chdir("/verif")
ids = sorted(d for d in os.listdir("seeded/benign") if os.path.isdir(f"seeded/benign/{d}"))
only = sys.argv[1:]
path = "seeded/benign/matrix.json"
matrix = json.load(open(path)) if os.path.exists(path) else {}
for s in ids:
    if only and s not in only:
        continue
    assert subprocess.run("git -C /repo diff --quiet", shell=True).returncode == 0
    if subprocess.run(f"git -C /repo apply /verif/seeded/benign/{s}/patch.diff", shell=True).returncode != 0:
        print(s, "patch does not apply"); continue
    row = {}
    try:
        for c in dict.fromkeys([s[:3], "C01", "C05", "C16", "C20"]):
            r = subprocess.run(f"VERIF_SCRATCH=1 timeout 1200 ./check {c}", shell=True, capture_output=True, text=True)
            v = [l for l in r.stdout.splitlines() if l.startswith("VIOLATION")]
            u = [l for l in r.stdout.splitlines() if l.startswith("UNDECIDED")]
            row[c] = dict(exit=r.returncode, violations=len(v), undecided=len(u), first=(v[0][:200] if v else (r.stdout.splitlines()[-1][:200] if r.returncode else None)))
    finally:
        subprocess.run("git -C /repo checkout -- .", shell=True)
    matrix[s] = row
    print(s, {c: (x["exit"], x["violations"], x["undecided"]) for c, x in row.items()}, flush=True)
    json.dump(matrix, open(path, "w"), indent=1)
