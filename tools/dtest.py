import os, sys; sys.path.insert(0, os.path.join(os.path.dirname(os.path.abspath(__file__)), ".."))
import time, collections
import vv
from vv import engined as E, common as C
tier = sys.argv[1] if len(sys.argv) > 1 else "quick"
u, b = E.lattice(tier, 0)
t = time.time(); ru = C.pool_map(E.unary_shard, u); print("unary", time.time() - t, sum(r[0] for r in ru))
t = time.time(); rb = C.pool_map(E.binary_shard, b); print("binary", time.time() - t, sum(r[0] for r in rb))
bad = [x for r in ru + rb for x in r[1]]
print("failed", len(bad))
g = collections.OrderedDict()
for prop, oid, detail in bad:
    key = prop + " " + oid.split("[")[0] + " " + "|".join(sorted(set(p.split("|")[-1].rstrip("]") for p in oid.split("[")[1:])))
    g.setdefault(key, []).append((oid, detail))
for k, v in sorted(g.items(), key=lambda kv: -len(kv[1]))[:400]:
    print(len(v), k, "::", v[0][0][-90:], str(v[0][1])[:260])
