#!/usr/bin/env python3
"""Confirm a seeded change produced by a sub-agent in a fresh scratch worktree of /repo HEAD:
   patch applies, demo passes without / fails with the change, pinned suite unchanged.  Writes /verif/seeded/<id>/."""
import json, os, shutil, subprocess, sys, tempfile, xml.etree.ElementTree as ET
sid = sys.argv[1]
name = sys.argv[2] if len(sys.argv) > 2 else sid
src = sys.argv[3] if len(sys.argv) > 3 else f"/tmp/seed_{sid}"
dst = f"/verif/seeded/{name}"
wt = f"/tmp/cs_{name}"
def sh(cmd, **kw): return subprocess.run(cmd, shell=True, capture_output=True, text=True, **kw)
sh(f"git -C /repo worktree remove --force {wt}")
assert sh(f"git -C /repo worktree add --detach {wt} HEAD").returncode == 0
shutil.copy("/repo/src/vector/_version.py", f"{wt}/src/vector/_version.py")
env = dict(os.environ, PYTHONPATH=f"{wt}/src")
meta = dict(id=name, property=sid[:3], repo_head=sh("git -C /repo rev-parse --short HEAD").stdout.strip())
r0 = subprocess.run(["/venv/bin/python", f"{src}/demo.py"], env=env, capture_output=True, text=True, cwd=wt)
meta["demo_without_change_exit"] = r0.returncode
ap = sh(f"git -C {wt} apply {src}/patch.diff")
meta["patch_applies"] = ap.returncode == 0
r1 = subprocess.run(["/venv/bin/python", f"{src}/demo.py"], env=env, capture_output=True, text=True, cwd=wt)
meta["demo_with_change_exit"] = r1.returncode
meta["demo_with_change_tail"] = (r1.stdout + r1.stderr)[-600:]
jx = f"{wt}/j.xml"
subprocess.run(["/venv/bin/python", "-m", "pytest", "-q", "-p", "no:cacheprovider", "--timeout=900", "--continue-on-collection-errors", f"--junitxml={jx}"],
               env=env, cwd=wt, stdout=subprocess.DEVNULL, stderr=subprocess.DEVNULL)
ok = set()
for tc in ET.parse(jx).getroot().iter("testcase"):
    if not any(ch.tag in ("failure", "error", "skipped") for ch in tc):
        ok.add(f"{tc.get('classname')}::{tc.get('name')}")
base = json.load(open("/root/.vp/BASELINE.json"))["stable_pass"]
missing = [t for t in base if t not in ok]
meta["suite_stable_pass_still_passing"] = len(base) - len(missing)
meta["suite_missing"] = missing[:10]
meta["confirmed"] = bool(meta["patch_applies"] and r0.returncode == 0 and r1.returncode != 0 and not missing)
os.makedirs(dst, exist_ok=True)
shutil.copy(f"{src}/patch.diff", f"{dst}/patch.diff"); shutil.copy(f"{src}/demo.py", f"{dst}/demo.py")
if os.path.exists(f"{src}/notes.md"): shutil.copy(f"{src}/notes.md", f"{dst}/notes.md")
meta["what_i_ran"] = ["git worktree add (fresh, /repo HEAD)", "demo.py without the change (expect exit 0)", "git apply patch.diff", "demo.py with the change (expect exit != 0)",
                      "pinned pytest command with PYTHONPATH=<worktree>/src, compared with BASELINE.json stable_pass"]
json.dump(meta, open(f"{dst}/meta.json", "w"), indent=1)
sh(f"git -C /repo worktree remove --force {wt}")
print(name, "confirmed" if meta["confirmed"] else "NOT CONFIRMED", {k: meta[k] for k in ("patch_applies", "demo_without_change_exit", "demo_with_change_exit", "suite_stable_pass_still_passing")})
