#!/bin/bash
# tools/seedwt.sh <seed-id> <check id>...   run checks against a scratch worktree of /repo HEAD with the seeded change applied
# (VERIF_REPO=<worktree>; evidence / replay go to /var/tmp); parallel-safe, /repo itself is not touched
S="$1"; shift
if [ -f "$S" ]; then P="$S"; TAG=b_$(basename $(dirname "$S")); else P=/verif/seeded/$S/patch.diff; TAG=$S; fi
WT=/tmp/swt_$TAG
cd /verif
git -C /repo worktree remove --force $WT >/dev/null 2>&1
git -C /repo worktree add --detach -q $WT HEAD || exit 9
cp /repo/src/vector/_version.py $WT/src/vector/_version.py
git -C $WT apply "$P" || { echo "$S patch does not apply"; git -C /repo worktree remove --force $WT; exit 9; }
for c in "$@"; do
  VERIF_REPO=$WT timeout 1500 ./check $c > /var/tmp/seedwt_${TAG}_$c.log 2>&1; rc=$?
  echo "$TAG $c exit=$rc violations=$(grep -c '^VIOLATION' /var/tmp/seedwt_${TAG}_$c.log) undecided=$(grep -c '^UNDECIDED' /var/tmp/seedwt_${TAG}_$c.log) :: $(grep '^VIOLATION' /var/tmp/seedwt_${TAG}_$c.log | head -2 | sed 's/.*obligation=//' | cut -c1-110 | tr '\n' ';')"
done
git -C /repo worktree remove --force $WT
