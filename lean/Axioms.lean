/-
  Axioms.lean -- machine-checked proofs (Lean 4 + Mathlib) of the real-analysis facts that the
  vector verification engine lists as trusted "library axioms".

  Compile with:
      cd /opt/veriftools/mathlib4 && lake env lean /verif/lean/Axioms.lean

  Modelling conventions:
    * numpy arctan2(y, x)        is  Complex.arg ⟨x, y⟩
    * numpy float  x % m (m > 0) is  x - m * ⌊x / m⌋
    * cbrt a (a ≥ 0)             is  a ^ ((1:ℝ)/3)
-/
import Mathlib

open Real

namespace VV

/-! ## 1. Pythagoras, addition formulas, parity -/

theorem pythagoras (a : ℝ) : cos a ^ 2 + sin a ^ 2 = 1 :=
  Real.cos_sq_add_sin_sq a

theorem cos_add (a b : ℝ) : cos (a + b) = cos a * cos b - sin a * sin b :=
  Real.cos_add a b

theorem sin_add (a b : ℝ) : sin (a + b) = sin a * cos b + cos a * sin b :=
  Real.sin_add a b

theorem cos_neg (a : ℝ) : cos (-a) = cos a :=
  Real.cos_neg a

theorem sin_neg (a : ℝ) : sin (-a) = -sin a :=
  Real.sin_neg a

/-! ## 2. Half-angle formulas -/

theorem half_angle (θ : ℝ) :
    cos θ = cos (θ / 2) ^ 2 - sin (θ / 2) ^ 2 ∧ sin θ = 2 * sin (θ / 2) * cos (θ / 2) := by
  have hc := Real.cos_two_mul (θ / 2)
  have hs := Real.sin_two_mul (θ / 2)
  have hp := Real.sin_sq_add_cos_sq (θ / 2)
  have h2 : 2 * (θ / 2) = θ := by ring
  rw [h2] at hc hs
  exact ⟨by linarith, hs⟩

theorem half_angle_pos (θ : ℝ) (h0 : 0 < θ) (hπ : θ < π) :
    0 < sin (θ / 2) ∧ 0 < cos (θ / 2) := by
  constructor
  · exact Real.sin_pos_of_pos_of_lt_pi (by linarith) (by linarith)
  · exact Real.cos_pos_of_mem_Ioo ⟨by linarith, by linarith⟩

theorem sin_pos_of_lt_pi (θ : ℝ) (h0 : 0 < θ) (hπ : θ < π) : 0 < sin θ :=
  Real.sin_pos_of_pos_of_lt_pi h0 hπ

/-! ## 3. arctan2 -/

theorem arctan2_spec (x y : ℝ) (h : x ≠ 0 ∨ y ≠ 0) :
    0 < √(x ^ 2 + y ^ 2) ∧
    √(x ^ 2 + y ^ 2) * cos (Complex.arg ⟨x, y⟩) = x ∧
    √(x ^ 2 + y ^ 2) * sin (Complex.arg ⟨x, y⟩) = y ∧
    -π < Complex.arg ⟨x, y⟩ ∧ Complex.arg ⟨x, y⟩ ≤ π := by
  have hz : (⟨x, y⟩ : ℂ) ≠ 0 := by
    intro hz
    have h1 := congrArg Complex.re hz
    have h2 := congrArg Complex.im hz
    simp at h1 h2
    rcases h with h | h
    · exact h h1
    · exact h h2
  have hn : ‖(⟨x, y⟩ : ℂ)‖ = √(x ^ 2 + y ^ 2) := Complex.norm_eq_sqrt_sq_add_sq _
  have hpos : 0 < ‖(⟨x, y⟩ : ℂ)‖ := norm_pos_iff.mpr hz
  have hc := Complex.cos_arg hz
  have hs := Complex.sin_arg (⟨x, y⟩ : ℂ)
  simp only at hc hs
  rw [← hn]
  refine ⟨hpos, ?_, ?_, Complex.neg_pi_lt_arg _, Complex.arg_le_pi _⟩
  · rw [hc]; field_simp
  · rw [hs]; field_simp

/-- Same statement with the hypothesis literally written as `(x, y) ≠ (0, 0)`. -/
theorem arctan2_spec' (x y : ℝ) (h : (x, y) ≠ ((0 : ℝ), (0 : ℝ))) :
    0 < √(x ^ 2 + y ^ 2) ∧
    √(x ^ 2 + y ^ 2) * cos (Complex.arg ⟨x, y⟩) = x ∧
    √(x ^ 2 + y ^ 2) * sin (Complex.arg ⟨x, y⟩) = y ∧
    -π < Complex.arg ⟨x, y⟩ ∧ Complex.arg ⟨x, y⟩ ≤ π := by
  apply arctan2_spec
  by_contra hc
  push Not at hc
  exact h (by rw [hc.1, hc.2])

/-! ## 4. arccos, arcsin, arctan -/

theorem arccos_spec (u : ℝ) (h1 : -1 ≤ u) (h2 : u ≤ 1) :
    cos (arccos u) = u ∧ sin (arccos u) = √(1 - u ^ 2) ∧ 0 ≤ arccos u ∧ arccos u ≤ π :=
  ⟨Real.cos_arccos h1 h2, Real.sin_arccos u, Real.arccos_nonneg u, Real.arccos_le_pi u⟩

theorem arcsin_spec (u : ℝ) (h1 : -1 ≤ u) (h2 : u ≤ 1) :
    sin (arcsin u) = u ∧ cos (arcsin u) = √(1 - u ^ 2) ∧
    -(π / 2) ≤ arcsin u ∧ arcsin u ≤ π / 2 :=
  ⟨Real.sin_arcsin h1 h2, Real.cos_arcsin u, Real.neg_pi_div_two_le_arcsin u,
    Real.arcsin_le_pi_div_two u⟩

theorem arctan_spec (u : ℝ) :
    cos (arctan u) = 1 / √(1 + u ^ 2) ∧ sin (arctan u) = u / √(1 + u ^ 2) ∧
    -(π / 2) < arctan u ∧ arctan u < π / 2 ∧
    (0 ≤ u → 0 ≤ arctan u) ∧ (u ≤ 0 → arctan u ≤ 0) :=
  ⟨Real.cos_arctan u, Real.sin_arctan u, Real.neg_pi_div_two_lt_arctan u,
    Real.arctan_lt_pi_div_two u, fun h => Real.arctan_nonneg.mpr h,
    fun h => Real.arctan_le_zero.mpr h⟩

/-! ## 5. Injectivity of (cos, sin) on windows of length 2π -/

/-- Equal cosine and sine means the angles differ by an integer multiple of 2π. -/
theorem angle_diff (a b : ℝ) (hc : cos a = cos b) (hs : sin a = sin b) :
    ∃ k : ℤ, a - b = 2 * π * k :=
  Real.Angle.angle_eq_iff_two_pi_dvd_sub.mp (Real.Angle.cos_sin_inj hc hs)

theorem angle_inj (a b : ℝ) (hc : cos a = cos b) (hs : sin a = sin b)
    (hab : |a - b| < 2 * π) : a = b := by
  obtain ⟨k, hk⟩ := angle_diff a b hc hs
  have hpi := Real.pi_pos
  rw [abs_lt] at hab
  have h1 : (k : ℝ) < 1 := by
    by_contra hcon
    push Not at hcon
    nlinarith
  have h2 : (-1 : ℝ) < k := by
    by_contra hcon
    push Not at hcon
    nlinarith
  have h1' : k < 1 := by exact_mod_cast h1
  have h2' : -1 < k := by exact_mod_cast h2
  have hk0 : k = 0 := by omega
  rw [hk0] at hk
  simp at hk
  linarith

theorem angle_inj_window (lo a b : ℝ) (ha1 : lo ≤ a) (ha2 : a < lo + 2 * π)
    (hb1 : lo ≤ b) (hb2 : b < lo + 2 * π)
    (hc : cos a = cos b) (hs : sin a = sin b) : a = b := by
  apply angle_inj a b hc hs
  rw [abs_lt]
  constructor <;> linarith

theorem angle_inj_window' (lo a b : ℝ) (ha1 : lo < a) (ha2 : a ≤ lo + 2 * π)
    (hb1 : lo < b) (hb2 : b ≤ lo + 2 * π)
    (hc : cos a = cos b) (hs : sin a = sin b) : a = b := by
  apply angle_inj a b hc hs
  rw [abs_lt]
  constructor <;> linarith

theorem angle_closed_window (lo a b : ℝ) (ha1 : lo ≤ a) (ha2 : a ≤ lo + 2 * π)
    (hb1 : lo ≤ b) (hb2 : b ≤ lo + 2 * π)
    (hc : cos a = cos b) (hs : sin a = sin b) :
    a = b ∨ (a = lo ∧ b = lo + 2 * π) ∨ (a = lo + 2 * π ∧ b = lo) := by
  obtain ⟨k, hk⟩ := angle_diff a b hc hs
  have hpi := Real.pi_pos
  have h1 : (k : ℝ) < 2 := by
    by_contra hcon
    push Not at hcon
    nlinarith
  have h2 : (-2 : ℝ) < k := by
    by_contra hcon
    push Not at hcon
    nlinarith
  have h1' : k < 2 := by exact_mod_cast h1
  have h2' : -2 < k := by exact_mod_cast h2
  have hk3 : k = 0 ∨ k = 1 ∨ k = -1 := by omega
  rcases hk3 with h | h | h
  · left
    rw [h] at hk
    simp at hk
    linarith
  · right; right
    rw [h] at hk
    simp at hk
    constructor <;> linarith
  · right; left
    rw [h] at hk
    simp at hk
    constructor <;> linarith

/-! ## 6. exp / log / hyperbolic functions -/

theorem exp_log (x : ℝ) (hx : 0 < x) : exp (log x) = x :=
  Real.exp_log hx

theorem log_mul (x y : ℝ) (hx : 0 < x) (hy : 0 < y) : log (x * y) = log x + log y :=
  Real.log_mul hx.ne' hy.ne'

theorem log_inj_pos (x y : ℝ) (hx : 0 < x) (hy : 0 < y) (h : log x = log y) : x = y :=
  Real.log_injOn_pos (Set.mem_Ioi.mpr hx) (Set.mem_Ioi.mpr hy) h

theorem sinh_via_exp (η : ℝ) : sinh η = (exp η - (exp η)⁻¹) / 2 := by
  rw [Real.sinh_eq, Real.exp_neg]

theorem cosh_via_exp (η : ℝ) : cosh η = (exp η + (exp η)⁻¹) / 2 := by
  rw [Real.cosh_eq, Real.exp_neg]

theorem tanh_via_exp (η : ℝ) : tanh η = ((exp η) ^ 2 - 1) / ((exp η) ^ 2 + 1) := by
  have he : 0 < exp η := Real.exp_pos η
  rw [Real.tanh_eq, Real.exp_neg]
  field_simp

theorem arsinh_via_log (u : ℝ) : Real.arsinh u = log (u + √(u ^ 2 + 1)) := by
  unfold Real.arsinh
  rw [add_comm (1 : ℝ) (u ^ 2)]

/-- The artanh formula: `y = ½ log(1+u) − ½ log(1−u)` satisfies `tanh y = u` on (-1, 1). -/
theorem artanh_via_log (u : ℝ) (h1 : -1 < u) (h2 : u < 1) :
    tanh ((1 / 2) * log (1 + u) - (1 / 2) * log (1 - u)) = u := by
  have hp : 0 < 1 + u := by linarith
  have hm : 0 < 1 - u := by linarith
  have hsq : (exp ((1 / 2) * log (1 + u) - (1 / 2) * log (1 - u))) ^ 2 = (1 + u) / (1 - u) := by
    rw [← Real.exp_nat_mul]
    have : ((2 : ℕ) : ℝ) * ((1 / 2) * log (1 + u) - (1 / 2) * log (1 - u))
        = log (1 + u) - log (1 - u) := by
      push_cast; ring
    rw [this, Real.exp_sub, Real.exp_log hp, Real.exp_log hm]
  rw [tanh_via_exp, hsq]
  field_simp
  ring

/-! ## 7. Pseudorapidity parametrisation of the polar angle -/

theorem theta_param (θ k w : ℝ) (h0 : 0 < θ) (hπ : θ < π)
    (hk : k = cos θ / sin θ) (hw : w = √(1 + k ^ 2)) :
    0 < w ∧ cos θ = k / w ∧ sin θ = 1 / w ∧ tan (θ / 2) = 1 / (w + k) ∧ 0 < w + k := by
  have hs : 0 < sin θ := Real.sin_pos_of_pos_of_lt_pi h0 hπ
  have hp := Real.sin_sq_add_cos_sq θ
  obtain ⟨hs2, hc2⟩ := half_angle_pos θ h0 hπ
  obtain ⟨hcθ, hsθ⟩ := half_angle θ
  have hp2 := Real.sin_sq_add_cos_sq (θ / 2)
  -- w = 1 / sin θ
  have hw' : w = 1 / sin θ := by
    rw [hw]
    rw [Real.sqrt_eq_iff_mul_self_eq_of_pos (by positivity)]
    rw [hk]
    field_simp
    linarith
  have hwk : w + k = (1 + cos θ) / sin θ := by
    rw [hw', hk]; ring
  have h1c : 0 < 1 + cos θ := by
    have : 1 + cos θ = 2 * cos (θ / 2) ^ 2 := by rw [hcθ]; linarith
    rw [this]; positivity
  refine ⟨?_, ?_, ?_, ?_, ?_⟩
  · rw [hw']; positivity
  · rw [hw', hk]; field_simp
  · rw [hw']; field_simp
  · rw [hwk, Real.tan_eq_sin_div_cos]
    have : 1 + cos θ = 2 * cos (θ / 2) ^ 2 := by rw [hcθ]; linarith
    rw [this, hsθ]
    field_simp
  · rw [hwk]; positivity

theorem eta_of_theta (θ k : ℝ) (h0 : 0 < θ) (hπ : θ < π) (hk : k = cos θ / sin θ) :
    -log (tan (θ / 2)) = Real.arsinh k := by
  obtain ⟨_, _, _, ht, hpos⟩ := theta_param θ k (√(1 + k ^ 2)) h0 hπ hk rfl
  rw [ht, one_div, Real.log_inv, neg_neg]
  unfold Real.arsinh
  rw [add_comm]

/-! ## 8. Floating-point remainder and angle rectification -/

theorem float_mod (x m : ℝ) (hm : 0 < m) :
    0 ≤ x - m * ⌊x / m⌋ ∧ x - m * ⌊x / m⌋ < m ∧
    ∃ n : ℤ, x = (x - m * ⌊x / m⌋) + n * m := by
  have h1 : (⌊x / m⌋ : ℝ) ≤ x / m := Int.floor_le _
  have h2 : x / m < ⌊x / m⌋ + 1 := Int.lt_floor_add_one _
  rw [le_div_iff₀ hm] at h1
  rw [div_lt_iff₀ hm] at h2
  refine ⟨by linarith, by linarith, ⌊x / m⌋, by ring⟩

theorem rectify (φ : ℝ) :
    -π ≤ (φ + π) - 2 * π * ⌊(φ + π) / (2 * π)⌋ - π ∧
    (φ + π) - 2 * π * ⌊(φ + π) / (2 * π)⌋ - π < π ∧
    cos ((φ + π) - 2 * π * ⌊(φ + π) / (2 * π)⌋ - π) = cos φ ∧
    sin ((φ + π) - 2 * π * ⌊(φ + π) / (2 * π)⌋ - π) = sin φ := by
  have h2pi : (0 : ℝ) < 2 * π := by have := Real.pi_pos; linarith
  obtain ⟨h1, h2, _⟩ := float_mod (φ + π) (2 * π) h2pi
  have he : (φ + π) - 2 * π * ⌊(φ + π) / (2 * π)⌋ - π
      = φ - (⌊(φ + π) / (2 * π)⌋ : ℝ) * (2 * π) := by ring
  refine ⟨by linarith, by linarith, ?_, ?_⟩
  · rw [he, Real.cos_sub_int_mul_two_pi]
  · rw [he, Real.sin_sub_int_mul_two_pi]

/-! ## 9. Square root and cube root -/

theorem sqrt_char (E r : ℝ) (hE : 0 ≤ E) : r = √E ↔ 0 ≤ r ∧ r ^ 2 = E := by
  constructor
  · intro h
    rw [h]
    exact ⟨Real.sqrt_nonneg E, Real.sq_sqrt hE⟩
  · rintro ⟨h0, h2⟩
    rw [← h2, Real.sqrt_sq h0]

theorem cbrt_char (a : ℝ) (ha : 0 ≤ a) : (a ^ ((1 : ℝ) / 3)) ^ 3 = a := by
  rw [← Real.rpow_natCast, ← Real.rpow_mul ha]
  norm_num

/-! ## 10. Cotangent reading of `a / tan A` -/

theorem cot_reading (a A : ℝ) (_hs : sin A ≠ 0) (_hc : cos A ≠ 0) :
    a / tan A = a * cos A / sin A := by
  rw [Real.tan_eq_sin_div_cos, div_div_eq_mul_div]

/-! ## 11. Piecewise functions -/

theorem abs_cases (a : ℝ) : 0 ≤ |a| ∧ (|a| = a ∨ |a| = -a) := by
  refine ⟨abs_nonneg a, ?_⟩
  rcases le_total 0 a with h | h
  · left; exact abs_of_nonneg h
  · right; exact abs_of_nonpos h

theorem max_cases (a b : ℝ) : max a b ≥ a ∧ max a b ≥ b ∧ (max a b = a ∨ max a b = b) := by
  refine ⟨le_max_left a b, le_max_right a b, ?_⟩
  rcases le_total a b with h | h
  · right; exact max_eq_right h
  · left; exact max_eq_left h

theorem min_cases (a b : ℝ) : min a b ≤ a ∧ min a b ≤ b ∧ (min a b = a ∨ min a b = b) := by
  refine ⟨min_le_left a b, min_le_right a b, ?_⟩
  rcases le_total a b with h | h
  · left; exact min_eq_left h
  · right; exact min_eq_right h

/-! ## 12. Cauchy–Schwarz in ℝ³ -/

theorem cauchy_schwarz3 (x1 y1 z1 x2 y2 z2 : ℝ) :
    (x1 * x2 + y1 * y2 + z1 * z2) ^ 2 ≤
      (x1 ^ 2 + y1 ^ 2 + z1 ^ 2) * (x2 ^ 2 + y2 ^ 2 + z2 ^ 2) := by
  nlinarith [sq_nonneg (x1 * y2 - x2 * y1), sq_nonneg (x1 * z2 - x2 * z1),
    sq_nonneg (y1 * z2 - y2 * z1)]

end VV

#print axioms VV.pythagoras
#print axioms VV.cos_add
#print axioms VV.sin_add
#print axioms VV.cos_neg
#print axioms VV.sin_neg
#print axioms VV.half_angle
#print axioms VV.half_angle_pos
#print axioms VV.sin_pos_of_lt_pi
#print axioms VV.arctan2_spec
#print axioms VV.arctan2_spec'
#print axioms VV.arccos_spec
#print axioms VV.arcsin_spec
#print axioms VV.arctan_spec
#print axioms VV.angle_diff
#print axioms VV.angle_inj
#print axioms VV.angle_inj_window
#print axioms VV.angle_inj_window'
#print axioms VV.angle_closed_window
#print axioms VV.exp_log
#print axioms VV.log_mul
#print axioms VV.log_inj_pos
#print axioms VV.sinh_via_exp
#print axioms VV.cosh_via_exp
#print axioms VV.tanh_via_exp
#print axioms VV.arsinh_via_log
#print axioms VV.artanh_via_log
#print axioms VV.theta_param
#print axioms VV.eta_of_theta
#print axioms VV.float_mod
#print axioms VV.rectify
#print axioms VV.sqrt_char
#print axioms VV.cbrt_char
#print axioms VV.cot_reading
#print axioms VV.abs_cases
#print axioms VV.max_cases
#print axioms VV.min_cases
#print axioms VV.cauchy_schwarz3
