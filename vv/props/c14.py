"""C14 - momentum names are exact synonyms of the geometric names (DESIGN 4/C14).

Object (and SymPy) backend on symbolic coordinates: every synonym getter returns the *same term* as the geometric getter, the
to_p* conversions return what their geometric counterparts return, the Et/Mt spellings are mutually identical, constructing /
assigning through a synonym yields the same object state, the flavor never changes a term.  The synonym table is the one in
the statement of C14; it is compared with the library's `_repr_momentum_to_generic`.  NumPy field access / item assignment and
Awkward fields are evaluated at run time on small arrays (bounded part)."""
from __future__ import annotations

import time

import numpy

from .. import common as C
from .. import objsym as O
from ..objsym import T
from .c04 import method_name

# from the statement of C14
SYN = {"px": "x", "py": "y", "pt": "rho", "pt2": "rho2", "pz": "z", "p": "mag", "p2": "mag2", "pseudorapidity": "eta",
       "E": "t", "e": "t", "energy": "t", "E2": "t2", "e2": "t2", "energy2": "t2", "M": "tau", "m": "tau", "mass": "tau",
       "M2": "tau2", "m2": "tau2", "mass2": "tau2"}
NEEDS = {"x": 2, "y": 2, "rho": 2, "rho2": 2, "z": 3, "mag": 3, "mag2": 3, "eta": 3, "t": 4, "t2": 4, "tau": 4, "tau2": 4}
GROUPS = (("Et", "et", "transverse_energy"), ("Et2", "et2", "transverse_energy2"), ("Mt", "mt", "transverse_mass"), ("Mt2", "mt2", "transverse_mass2"))
SETTABLE = {"px": "x", "py": "y", "pt": "rho", "pz": "z", "E": "t", "e": "t", "energy": "t", "M": "tau", "m": "tau", "mass": "tau"}


def shard(args):
    s1, = args
    O.install()
    import vector
    ob = O.Obligations("C14")
    d = len(s1) + 1
    sid = f"[{','.join(s1)}]"
    v = O.make(s1, True, "1")        # momentum vector
    g = O.make(s1, False, "1")       # generic twin with the same symbols
    # getters
    for syn, gen in SYN.items():
        if NEEDS[gen] > d:
            continue
        try:
            with numpy.errstate(all="ignore"):
                a, b = getattr(v, syn), getattr(v, gen)
            ob.check(f"getter/{syn}=={gen}{sid}", O.same(a, b), dict(got=repr(a)[:150], expected=repr(b)[:150]))
        except Exception as e:
            ob.check(f"getter/{syn}=={gen}{sid}", False, f"{type(e).__name__}: {e}")
        # the flavor never changes a number
        try:
            with numpy.errstate(all="ignore"):
                ob.check(f"flavor-neutral/{gen}{sid}", O.same(getattr(v, gen), getattr(g, gen)))
        except Exception as e:
            ob.check(f"flavor-neutral/{gen}{sid}", False, f"{type(e).__name__}: {e}")
    if d == 4:
        for grp in GROUPS:
            try:
                vals = [getattr(v, n) for n in grp]
                ob.check(f"spellings-identical/{'/'.join(grp)}{sid}", all(O.same(vals[0], x) for x in vals[1:]), [repr(x)[:100] for x in vals])
            except Exception as e:
                ob.check(f"spellings-identical/{'/'.join(grp)}{sid}", False, f"{type(e).__name__}: {e}")
    # conversions: to_p* == geometric counterpart (with and without keywords)
    for target in O.systems():
        gname, mname = method_name(target, False), method_name(target, True)
        tn = O.names_of(target)
        from .c04 import MOMNAME
        missing = tn[2 + max(0, d - 2):] if len(target) + 1 > d else []
        for kws in ([], missing):
            try:
                with numpy.errstate(all="ignore"):
                    a = O.describe(getattr(v, mname)(**{MOMNAME[n]: T(f"kw_{n}") for n in kws}))
                    b = O.describe(getattr(v, gname)(**{n: T(f"kw_{n}") for n in kws}))
                ob.check(f"conversion/{mname}=={gname}({','.join(kws)}){sid}", O.vec_equal(a, b), dict(got=[repr(c)[:80] for c in a["coords"]], expected=[repr(c)[:80] for c in b["coords"]]))
            except Exception as e:
                ob.check(f"conversion/{mname}=={gname}({','.join(kws)}){sid}", False, f"{type(e).__name__}: {e}")
    # constructing through synonyms: every per-coordinate choice of spelling gives the same stored terms
    names = O.names_of(s1)
    alts = {"x": ["px"], "y": ["py"], "rho": ["pt"], "z": ["pz"], "t": ["E", "e", "energy"], "tau": ["M", "m", "mass"]}
    for n in names:
        for alt in alts.get(n, []):
            kw = {(alt if k == n else k): T(f"{k}1") for k in names}
            try:
                w = vector.obj(**kw)
                ob.check(f"construct/{alt}-for-{n}{sid}", O.sysof(w) == tuple(s1) and O.same(O.coords(w), O.coords(g)) and O.is_mom(w), repr(w))
                cls = {2: vector.MomentumObject2D, 3: vector.MomentumObject3D, 4: vector.MomentumObject4D}[d]
                w2 = cls(**kw)
                ob.check(f"construct-class/{alt}-for-{n}{sid}", O.sysof(w2) == tuple(s1) and O.same(O.coords(w2), O.coords(g)), repr(w2))
            except Exception as e:
                ob.check(f"construct/{alt}-for-{n}{sid}", False, f"{type(e).__name__}: {e}")
    # assigning through a synonym setter == assigning through the geometric setter
    for syn, gen in SETTABLE.items():
        if NEEDS[gen] > d:
            continue
        a, b = O.make(s1, True, "1"), O.make(s1, True, "1")
        try:
            with numpy.errstate(all="ignore"):
                setattr(a, syn, T("new"))
                setattr(b, gen, T("new"))
            ob.check(f"setter/{syn}=={gen}{sid}", O.vec_equal(O.describe(a), O.describe(b)), dict(got=O.describe(a)["system"], expected=O.describe(b)["system"]))
        except Exception as e:
            ob.check(f"setter/{syn}=={gen}{sid}", False, f"{type(e).__name__}: {e}")
    return ob.n, ob.bad


def table_check(ob):
    from vector._methods import _repr_momentum_to_generic
    want = {k: v for k, v in SYN.items() if k in ("px", "py", "pt", "pz", "E", "e", "energy", "M", "m", "mass")}
    ob.check("synonym-table/_repr_momentum_to_generic", dict(_repr_momentum_to_generic) == want, dict(got=dict(_repr_momentum_to_generic), expected=want))


def sympy_part(ob):
    """the SymPy backend carries its own classes: synonym getters on symbols"""
    import sympy
    import vector
    for s1 in O.systems():
        names = O.names_of(s1)
        syms = {n: sympy.Symbol(n, real=True) for n in names}
        d = len(s1) + 1
        cls = {2: vector.MomentumSympy2D, 3: vector.MomentumSympy3D, 4: vector.MomentumSympy4D}[d]
        try:
            v = cls(**syms)
        except Exception as e:
            ob.check(f"sympy/construct[{','.join(s1)}]", False, f"{type(e).__name__}: {e}")
            continue
        for syn, gen in SYN.items():
            if NEEDS[gen] > d:
                continue
            try:
                a, b = getattr(v, syn), getattr(v, gen)
                ob.check(f"sympy/getter/{syn}=={gen}[{','.join(s1)}]", a == b or sympy.simplify(a - b) == 0, dict(got=str(a)[:100], expected=str(b)[:100]))
            except Exception as e:
                ob.check(f"sympy/getter/{syn}=={gen}[{','.join(s1)}]", False, f"{type(e).__name__}: {e}")


def O_sys(v):
    from .. import arrays as AR
    return AR.sysof(v)


def array_part(ob):
    """bounded: NumPy field access / item assignment and Awkward fields through synonyms (small arrays, all 20 systems)"""
    import numpy as np
    import vector
    try:
        import awkward as ak
    except Exception:
        ak = None
    from .c04 import MOMNAME
    for s1 in O.systems():
        names = O.names_of(s1)
        d = len(s1) + 1
        data = {n: np.array([1.25 + i, 2.5 + i, 0.75 + i]) * (0.3 if n in ("phi", "theta", "eta") else 1.0) for i, n in enumerate(names)}
        mnames = [{"x": "px", "y": "py", "rho": "pt", "z": "pz", "t": "E", "tau": "M"}.get(n, n) for n in names]
        a_gen = vector.array({n: data[n] for n in names})
        a_mom = vector.array({m: data[n] for m, n in zip(mnames, names)})
        sid = f"[{','.join(s1)}]"
        for syn, gen in SYN.items():
            if NEEDS[gen] > d:
                continue
            try:
                with np.errstate(all="ignore"):
                    x, y, z = getattr(a_mom, syn), getattr(a_mom, gen), getattr(a_gen, gen)
                ob.check(f"numpy/getter/{syn}=={gen}{sid}", np.array_equal(x, y, equal_nan=True) and np.array_equal(y, z, equal_nan=True))
            except Exception as e:
                ob.check(f"numpy/getter/{syn}=={gen}{sid}", False, f"{type(e).__name__}: {e}")
        for m, n in zip(mnames, names):
            try:
                ob.check(f"numpy/field/{m}=={n}{sid}", np.array_equal(a_mom[m], data[n]) and np.array_equal(a_mom[n], data[n]) and np.shares_memory(a_mom[m], a_mom))
                b = vector.array({mm: data[nn].copy() for mm, nn in zip(mnames, names)})
                c = vector.array({mm: data[nn].copy() for mm, nn in zip(mnames, names)})
                b[m] = np.array([9.0, 8.0, 7.0])
                c[n] = np.array([9.0, 8.0, 7.0])
                ob.check(f"numpy/setitem/{m}=={n}{sid}", np.array_equal(b[n], c[n]) and np.array_equal(np.asarray(b).tolist(), np.asarray(c).tolist()))
            except Exception as e:
                ob.check(f"numpy/field/{m}=={n}{sid}", False, f"{type(e).__name__}: {e}")
        # "the flavor never changes any number": operators and norm ufuncs on the momentum array equal those on the geometric twin
        pairs_ = [("numpy", a_mom, a_gen)]
        if ak is not None:
            try:
                pairs_.append(("awkward", vector.Array([{m: float(data[n][i]) for m, n in zip(mnames, names)} for i in range(3)]),
                               vector.Array([{n: float(data[n][i]) for n in names} for i in range(3)])))
            except Exception:
                pass
        flav_ops = [("abs", lambda v: abs(v)), ("**2", lambda v: v ** 2), ("**3", lambda v: v ** 3), ("**0.5", lambda v: v ** 0.5), ("numpy.sqrt", lambda v: np.sqrt(v)),
                    ("numpy.cbrt", lambda v: np.cbrt(v)), ("numpy.square", lambda v: np.square(v)), ("numpy.absolute", lambda v: np.absolute(v)),
                    ("numpy.power(v,2)", lambda v: np.power(v, 2)), ("numpy.power(v,3.5)", lambda v: np.power(v, 3.5)),
                    ("dot(self)", lambda v: v.dot(v)), ("unit.rho", lambda v: v.unit().rho), ("scale(2).rho", lambda v: v.scale(2).rho), ("-v.rho", lambda v: (-v).rho)]
        for bname, vm, vg in pairs_:
            for oname, f in flav_ops:
                try:
                    with np.errstate(all="ignore"):
                        x, y = f(vm), f(vg)
                    x = np.asarray(ak.to_numpy(x)) if (ak is not None and isinstance(x, ak.Array)) else np.asarray(x)
                    y = np.asarray(ak.to_numpy(y)) if (ak is not None and isinstance(y, ak.Array)) else np.asarray(y)
                    ob.check(f"{bname}/flavor-changes-no-number/{oname}{sid}", np.array_equal(x, y, equal_nan=True), dict(momentum=x.tolist(), geometric=y.tolist()))
                except Exception as e:
                    ob.check(f"{bname}/flavor-changes-no-number/{oname}{sid}", False, f"{type(e).__name__}: {str(e)[:150]}")
        # every mixture of spellings (each coordinate independently geometric or any of its synonyms): record layout, rows,
        # element access and the coordinate sub-views are those of the geometric spelling
        import itertools
        ALLSYN = {"x": ["x", "px"], "y": ["y", "py"], "rho": ["rho", "pt"], "phi": ["phi"], "z": ["z", "pz"], "theta": ["theta"], "eta": ["eta"],
                  "t": ["t", "E", "e", "energy"], "tau": ["tau", "M", "m", "mass"]}
        from vector._methods import _repr_momentum_to_generic as _G
        ref_rows = a_gen.view(np.ndarray).tolist()
        parts = ["azimuthal"] + (["longitudinal"] if d >= 3 else []) + (["temporal"] if d == 4 else [])
        for combo in itertools.product(*[ALLSYN[n] for n in names]):
            if list(combo) == list(names):
                continue
            cid = f"{{{','.join(combo)}}}"
            try:
                arr = vector.array({c: data[n] for c, n in zip(combo, names)})
                ob.check(f"numpy/mixed-spelling/layout{cid}", [_G.get(c, c) for c in arr.dtype.names] == list(a_gen.dtype.names), str(arr.dtype.names))
                ob.check(f"numpy/mixed-spelling/rows{cid}", arr.view(np.ndarray).tolist() == ref_rows)
                ok_el = ok_sub = True
                for i in range(3):
                    e1, e0 = arr[i], a_gen[i]
                    ok_el = ok_el and all(getattr(e1, n) == getattr(e0, n) for n in names)
                    for part in parts:
                        ok_sub = ok_sub and tuple(getattr(arr, part)[i].elements) == tuple(getattr(a_gen, part)[i].elements)
                ob.check(f"numpy/mixed-spelling/element{cid}", ok_el)
                ob.check(f"numpy/mixed-spelling/coordinate-subview-element{cid}", ok_sub)
                ob.check(f"numpy/mixed-spelling/flavor{cid}", isinstance(arr, vector.Momentum) == any(c != n for c, n in zip(combo, names)))
                # the same spelled columns handed over in other legal containers: a structured array with the fields in reversed order, a
                # multi-field view of a wider record (non-packed, out-of-order offsets), a dtype with explicit offsets (padding)
                rev = list(reversed(list(zip(combo, names))))
                rec_rev = np.empty(3, dtype=[(c, np.float64) for c, _ in rev])
                wide = np.empty(3, dtype=[("pad0", np.float64)] + [(c, np.float64) for c, _ in rev] + [("pad1", np.int32)])
                offs = np.empty(3, dtype=dict(names=list(combo), formats=[np.float64] * len(combo), offsets=[16 * (len(combo) - 1 - i) + 4 for i in range(len(combo))], itemsize=16 * len(combo) + 8))
                for c, n in zip(combo, names):
                    rec_rev[c] = data[n]; wide[c] = data[n]; offs[c] = data[n]
                wide["pad0"] = -77.0; wide["pad1"] = -9
                for cname, cont in (("reversed-record", rec_rev), ("multi-field-view", wide[list(combo)]), ("explicit-offsets", offs)):
                    try:
                        arr2 = vector.array(cont)
                        okc = isinstance(arr2, vector.Momentum) == any(c != n for c, n in zip(combo, names)) and O_sys(arr2) == O_sys(a_gen) and \
                            all(np.array_equal(np.asarray(getattr(arr2, n)), data[n]) and np.array_equal(np.asarray(arr2[c]), data[n]) and np.array_equal(np.asarray(arr2[n]), data[n]) for c, n in zip(combo, names))
                        ob.check(f"numpy/mixed-spelling/container/{cname}{cid}", okc, {n: np.asarray(getattr(arr2, n)).tolist() for n in names})
                    except Exception as e:
                        ob.check(f"numpy/mixed-spelling/container/{cname}{cid}", False, f"{type(e).__name__}: {str(e)[:150]}")
                # slice assignment from an array spelled this way into a momentum array spelled the canonical momentum way (and vice versa)
                data2 = {n: data[n] * 2.0 + 0.125 for n in names}
                rhs = np.empty(3, dtype=[(c, np.float64) for c in combo])         # plain records whose columns carry these spellings
                for c, n in zip(combo, names):
                    rhs[c] = data2[n]
                tgt = vector.array({mm: data[nn].copy() for mm, nn in zip(mnames, names)})
                tgt[1:] = rhs[1:]
                ok_set = all(np.array_equal(np.asarray(getattr(tgt, n))[1:], data2[n][1:]) and np.asarray(getattr(tgt, n))[0] == data[n][0] for n in names)
                ob.check(f"numpy/mixed-spelling/slice-assignment-from{cid}", ok_set, {n: np.asarray(getattr(tgt, n)).tolist() for n in names})
                tgt2 = vector.array({c: data[n].copy() for c, n in zip(combo, names)})
                src2 = vector.array({mm: data2[nn] for mm, nn in zip(mnames, names)})
                tgt2[:2] = src2[:2]
                ok_set2 = all(np.array_equal(np.asarray(getattr(tgt2, n))[:2], data2[n][:2]) and np.asarray(getattr(tgt2, n))[2] == data[n][2] for n in names)
                ob.check(f"numpy/mixed-spelling/slice-assignment-into{cid}", ok_set2, {n: np.asarray(getattr(tgt2, n)).tolist() for n in names})
            except Exception as e:
                ob.check(f"numpy/mixed-spelling{cid}", False, f"{type(e).__name__}: {str(e)[:150]}")
        if ak is not None:
            try:
                k_mom = vector.Array([{m: float(data[n][i]) for m, n in zip(mnames, names)} for i in range(3)])
                k_gen = vector.Array([{n: float(data[n][i]) for n in names} for i in range(3)])
                for syn, gen in SYN.items():
                    if NEEDS[gen] > d:
                        continue
                    with np.errstate(all="ignore"):
                        x, y, z = getattr(k_mom, syn), getattr(k_mom, gen), getattr(k_gen, gen)
                    ob.check(f"awkward/getter/{syn}=={gen}{sid}", ak.to_list(x) == ak.to_list(y) == ak.to_list(z) or
                             np.allclose(ak.to_numpy(x), ak.to_numpy(z), equal_nan=True, rtol=0, atol=0))
            except Exception as e:
                ob.check(f"awkward/getters{sid}", False, f"{type(e).__name__}: {str(e)[:150]}")


def main(argv):
    report = C.Report("C14")
    t0 = time.time()
    ob = O.Obligations("C14")
    table_check(ob)
    sympy_part(ob)
    n_sym = ob.n
    nb0 = len(ob.bad)
    array_part(ob)
    n_arr = ob.n - n_sym
    bounded_ids = {b[0] for b in ob.bad[nb0:]}
    res = O.concolic_map(shard, [(s,) for s in O.systems()])
    n_obj = sum(r[0] for r in res)
    n = ob.n + n_obj
    bad = ob.bad + [b for r in res for b in r[1]]
    # "every spelling reads the same number" must also hold after an update: the C15 step contracts "every property (all momentum spellings included) of the
    # updated vector is that of a vector freshly built from its new state" for momentum vectors, under this property's label
    from . import c15
    sres = O.concolic_map(c15.shard, [(s, True) for s in O.systems()])
    key = "every-property-is-that-of-the-new-state"
    stale_bad = [(oid.replace("C15/", "C14/after-update/", 1), d_) for r in sres for oid, d_ in r[1] if key in oid]
    n_stale = len(stale_bad)          # the shards report only their total; the after-update contracts are counted conservatively (failures only)
    n_obj += n_stale
    n += n_stale
    bad += stale_bad
    groups = {}
    for oid, detail in bad:
        groups.setdefault(oid.split("[")[0].split("{")[0], []).append((oid, detail))
    nk = nk_b = 0
    for gname, items in sorted(groups.items()):
        oid, detail = items[0]
        kf = C.match_known("C14", oid, dict(detail=str(detail)))
        if kf:
            nk += len(items)
            nk_b += sum(1 for o, _ in items if o in bounded_ids)
            report.known_finding(oid, kf["what"])
        else:
            report.violation(oid, dict(kind="object-backend-symbolic-evaluation", failing_lattice_points=len(items), first=dict(obligation=oid, detail=detail),
                                       others=[o for o, _ in items[1:6]], replay_handler="vv.props.c14:replay"), has_input=True)
    level = "proof" if not bad else "other"
    nbad_b = sum(1 for b in bad if b[0] in bounded_ids)
    n_p = n - n_arr          # the bounded NumPy / Awkward part is reported separately and not counted as obligations / discharged
    coverage = dict(obligations=n_p - (nk - nk_b), discharged=n_p - (len(bad) - nbad_b), obligations_posed=n_p, known_findings=nk,
                    by_backend={"term identity (object backend on symbolic coordinates)": n_obj, "expression identity (SymPy backend)": n_sym},
                    exhaustive=True, checker_cmd=f"./check C14 --tier {C.tier()}",
                    trusted_base=["parametricity of the object backend in its coordinate values", "SymPy expression equality", "CPython"],
                    bounded_part=dict(evaluations=n_arr, failed=nbad_b, bound="arrays of 3 elements, all 20 coordinate systems, both flavors; NumPy field access and item assignment, Awkward fields",
                                      label="BOUNDED run-time contracts - not counted in obligations / discharged"),
                    samples=[dict(obligation="C14/getter/pt==rho[rhophi,eta,tau]", status="same term"), dict(obligation="C14/setter/mass==tau[xy,z,t]", status="same object state")],
                    explanation=f"synonym table of the statement vs the library table; {n_obj} term-identity obligations over 20 systems on the object backend (getters, flavor neutrality, Et/Mt "
                                f"spellings, 40 conversions, constructors, setters), {n_sym} on the SymPy backend, {n_arr} run-time contract evaluations on NumPy/Awkward arrays; {len(bad)} failed.")
    C.write_evidence("C14", level, coverage, ["values universally quantified by parametricity (object backend) / symbolic expressions (SymPy)",
                                              "NumPy and Awkward parts are bounded run-time contracts on small arrays"], time.time() - t0, len(report.violations))
    print(f"C14: obligations={n} failed={len(bad)} known={nk} wall={time.time() - t0:.1f}s")
    return report.exit_code()


def replay(prop, rp, path):
    import re
    oid = rp["first"]["obligation"]
    m = re.search(r"\[([a-z,]+)\]$", oid)
    bad = []
    if m and not oid.startswith(("C14/numpy", "C14/awkward", "C14/sympy", "C14/synonym")):
        bad = shard((tuple(m.group(1).split(",")),))[1]
    else:
        ob = O.Obligations("C14"); table_check(ob); sympy_part(ob); array_part(ob); bad = ob.bad
    hit = [b for b in bad if b[0] == oid]
    for b in hit[:3]:
        print("still failing:", b)
    if hit:
        print(f"VIOLATION property={prop} replay={path}")
        return 1
    print("obligation holds on this tree")
    return 0
