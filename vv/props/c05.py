"""C05 - result backend, flavor, dimension and coordinate system follow the stated rules (DESIGN 4/C05), object backend part:
the finite lattice  method x coordinate-system signature x flavors x operand order x dimension pairing  is enumerated
completely with *symbolic* coordinates; every result is compared by term identity with the live table entry applied to the
operands' stored coordinates in contract order (glue), and its class/flavor/dimension/coordinate system with the rules of
the statement.  NumPy/Awkward result classes are the bounded C03 check."""
from __future__ import annotations

import itertools
import os
import time

import numpy

from .. import common as C
from .. import objsym as O
from ..objsym import T

ORDERS = ("xzx", "xyx", "yxy", "yzy", "zyz", "zxz", "xzy", "xyz", "yxz", "yzx", "zyx", "zxy")
PKD = {2: "planar", 3: "spatial", 4: "lorentz"}
NORM = {2: "rho", 3: "mag", 4: "tau"}
PLANAR_PROPS = ["x", "y", "rho", "rho2", "phi"]
SPATIAL_PROPS = ["z", "theta", "eta", "costheta", "cottheta", "mag", "mag2"]
LORENTZ_PROPS = ["t", "t2", "tau", "tau2", "beta", "gamma", "rapidity"]
MOMENTUM_LORENTZ = ["Et", "Et2", "Mt", "Mt2"]


def census(ob):
    """table totality: every dispatch_map is total over the product of coordinate types its signature builds"""
    from .. import ops
    from ..views import AZ, LO, TE, groups
    n = 0
    for pk, name, m in ops.all_modules():
        keys = list(m.dispatch_map)
        k0 = keys[0]
        shape = [("s" if isinstance(c, str) else ("a" if c in AZ else "l" if c in LO else "t")) for c in k0]
        dom = {"a": AZ, "l": LO, "t": TE, "s": tuple(ORDERS)}
        full = set(itertools.product(*[dom[s] for s in shape]))
        missing = full - set(keys)
        extra = set(keys) - full
        ob.check(f"table-total/{pk}.{name}", not missing and not extra,
                 f"missing {len(missing)} keys e.g. {[tuple(getattr(c, '__name__', c) for c in k) for k in list(missing)[:2]]}, unexpected {len(extra)}")
        n += len(keys)
    return n


def shard(args):
    s1, mom1 = args
    O.install()
    import vector
    ob = O.Obligations("C05")
    v = O.make(s1, mom1, "1")
    d = len(s1) + 1
    sid = f"[{','.join(s1)}|{'mom' if mom1 else 'gen'}]"

    def expect_vec(name, actual, pk, mod, vecs, scal=(), order=None, momentum=None, first=None):
        try:
            raw, returns = O.table_call(pk, mod, vecs, scal, order)
            exp = O.expected_vector(first if first is not None else vecs[0], mom1 if momentum is None else momentum, raw, returns)
            a = O.describe(actual)
            ob.check(f"glue/{name}{sid}", O.vec_equal(a, exp), dict(got=_short(a), expected=_short(exp)))
        except Exception as e:
            ob.check(f"glue/{name}{sid}", False, f"{type(e).__name__}: {e}")

    def expect_scalar(name, actual, pk, mod, vecs, scal=()):
        try:
            raw, returns = O.table_call(pk, mod, vecs, scal)
            ob.check(f"glue/{name}{sid}", O.same(actual, raw), dict(got=repr(actual)[:200], expected=repr(raw)[:200]))
        except Exception as e:
            ob.check(f"glue/{name}{sid}", False, f"{type(e).__name__}: {e}")

    def call(name, f):
        try:
            with numpy.errstate(all="ignore"):
                return True, f()
        except Exception as e:
            ob.check(f"defined/{name}{sid}", False, f"{type(e).__name__}: {str(e)[:200]}")
            return False, None

    # ---- properties
    for p in PLANAR_PROPS + (SPATIAL_PROPS if d >= 3 else []) + (LORENTZ_PROPS if d == 4 else []) + (MOMENTUM_LORENTZ if (d == 4 and mom1) else []):
        pk = "planar" if p in PLANAR_PROPS else "spatial" if p in SPATIAL_PROPS else "lorentz"
        ok, r = call(p, lambda: getattr(v, p))
        if ok:
            expect_scalar(p, r, pk, p, [v])
    # ---- every momentum spelling of a property reaches the kernel of the geometric name (C14's table; here as glue obligations so that the
    #      checks of C01/C02, which own "every property ... computes its definition", cover the aliases too)
    if mom1:
        from .c14 import SYN as _SYN, NEEDS as _NEEDS, GROUPS as _GROUPS
        for syn, gen in _SYN.items():
            if _NEEDS[gen] > d:
                continue
            pk = "planar" if gen in PLANAR_PROPS else "spatial" if gen in SPATIAL_PROPS else "lorentz"
            ok, r = call(syn, lambda syn=syn: getattr(v, syn))
            if ok:
                expect_scalar(syn, r, pk, gen, [v])
        if d == 4:
            for grp in _GROUPS:
                for alias in grp[1:]:
                    ok, r = call(alias, lambda alias=alias: getattr(v, alias))
                    if ok:
                        expect_scalar(alias, r, "lorentz", grp[0], [v])
    # ---- unary vector methods
    k, a, b_, c_ = T("k"), T("a"), T("b"), T("c")
    pkd = PKD[d]
    un = [("unit", lambda: v.unit(), pkd, "unit", ()), ("scale", lambda: v.scale(k), pkd, "scale", (k,)),
          ("scale2D", lambda: v.scale2D(k), "planar", "scale", (k,)), ("neg2D", lambda: v.neg2D, "planar", "scale", (-1,)),
          ("rotateZ", lambda: v.rotateZ(a), "planar", "rotateZ", (a,))]
    m2 = {n: T(n) for n in ("xx", "xy", "yx", "yy")}
    un.append(("transform2D", lambda: v.transform2D(m2), "planar", "transform2D", tuple(m2[n] for n in ("xx", "xy", "yx", "yy"))))
    if d >= 3:
        un += [("scale3D", lambda: v.scale3D(k), "spatial", "scale", (k,)), ("neg3D", lambda: v.neg3D, "spatial", "scale", (-1,)),
               ("rotateX", lambda: v.rotateX(a), "spatial", "rotateX", (a,)), ("rotateY", lambda: v.rotateY(a), "spatial", "rotateY", (a,)),
               ("rotate_quaternion", lambda: v.rotate_quaternion(T("u"), T("i"), T("j"), T("kq")), "spatial", "rotate_quaternion", (T("u"), T("i"), T("j"), T("kq")))]
        n3 = [x + y for x in "xyz" for y in "xyz"]
        m3 = {n: T(n) for n in n3}
        un.append(("transform3D", lambda: v.transform3D(m3), "spatial", "transform3D", tuple(m3[n] for n in n3)))
    if d == 4:
        un += [("scale4D", lambda: v.scale4D(k), "lorentz", "scale", (k,)), ("neg4D", lambda: v.neg4D, "lorentz", "scale", (-1,))]
        for ax in "XYZ":
            un.append((f"boost{ax}(beta)", (lambda ax=ax: getattr(v, f"boost{ax}")(beta=b_)), "lorentz", f"boost{ax}_beta", (b_,)))
            un.append((f"boost{ax}(gamma)", (lambda ax=ax: getattr(v, f"boost{ax}")(gamma=c_)), "lorentz", f"boost{ax}_gamma", (c_,)))
        n4 = [x + y for x in "xyzt" for y in "xyzt"]
        m4 = {n: T(n) for n in n4}
        un.append(("transform4D", lambda: v.transform4D(m4), "lorentz", "transform4D", tuple(m4[n] for n in n4)))
        un.append(("to_beta3", lambda: v.to_beta3(), "lorentz", "to_beta3", ()))
    for name, f, pk, mod, scal in un:
        ok, r = call(name, f)
        if ok:
            expect_vec(name, r, pk, mod, [v], scal)
    if d == 4:
        for ax in "XYZ":
            ob.raises(f"typeerror/boost{ax}(beta and gamma){sid}", lambda ax=ax: getattr(v, f"boost{ax}")(beta=b_, gamma=c_))
            ob.raises(f"typeerror/boost{ax}(){sid}", lambda ax=ax: getattr(v, f"boost{ax}")())
        for pred in ("is_timelike", "is_spacelike", "is_lightlike"):
            ok, r = call(pred, lambda pred=pred: getattr(v, pred)(k))
            if ok:
                expect_scalar(pred, r, "lorentz", pred, [v], (k,))
    if d >= 3:
        ph, th, ps = T("phi_e"), T("theta_e"), T("psi_e")
        for o in ORDERS:
            for spelled in (o, o.upper()):
                ok, r = call(f"rotate_euler[{spelled}]", lambda spelled=spelled: v.rotate_euler(ph, th, ps, spelled))
                if ok:
                    expect_vec(f"rotate_euler[{spelled}]", r, "spatial", "rotate_euler", [v], (ph, th, ps), order=o)
        ok, r = call("rotate_euler[default]", lambda: v.rotate_euler(ph, th, ps))
        if ok:
            expect_vec("rotate_euler[default=zxz]", r, "spatial", "rotate_euler", [v], (ph, th, ps), order="zxz")
        yaw, pitch, roll = T("yaw"), T("pitch"), T("roll")
        ok, r = call("rotate_nautical", lambda: v.rotate_nautical(yaw, pitch, roll))
        if ok:
            expect_vec("rotate_nautical==rotate_euler(roll,pitch,yaw,zyx)", r, "spatial", "rotate_euler", [v], (roll, pitch, yaw), order="zyx")
    # ---- operators on one vector
    ok, r = call("operator/-v", lambda: -v)
    if ok:
        expect_vec("operator/-v==scale(-1)", r, pkd, "scale", [v], (-1,))
    ok, r = call("operator/+v", lambda: +v)
    if ok:
        ob.check(f"operator/+v{sid}", O.vec_equal(O.describe(r), O.describe(v)))
    for nm, f, sc in (("v*k", lambda: v * k, (k,)), ("k*v", lambda: k * v, (k,)), ("v/k", lambda: v / k, (1 / k,))):
        ok, r = call("operator/" + nm, f)
        if ok:
            expect_vec(f"operator/{nm}==scale", r, pkd, "scale", [v], sc)
    ok, r = call("operator/abs", lambda: abs(v))
    if ok:
        expect_scalar("operator/abs==" + NORM[d], r, pkd, NORM[d], [v])
    ok, r = call("operator/**2", lambda: v ** 2)
    if ok:
        expect_scalar("operator/**2==" + NORM[d] + "2", r, pkd, NORM[d] + "2", [v])
    for e in (3, 0.5):
        ok, r = call(f"operator/**{e}", lambda e=e: v ** e)
        if ok:
            raw, _ = O.table_call(pkd, NORM[d], [v])
            ob.check(f"operator/**{e}==norm**{e}{sid}", O.same(r, raw ** e), dict(got=repr(r)[:160], expected=repr(raw ** e)[:160]))
    for fn, expo in ((numpy.sqrt, 0.25), (numpy.cbrt, 1 / 6), (numpy.square, None), (numpy.absolute, None)):
        ok, r = call(f"numpy.{fn.__name__}", lambda fn=fn: fn(v))
        if ok:
            raw2, _ = O.table_call(pkd, NORM[d] + "2", [v])
            raw1, _ = O.table_call(pkd, NORM[d], [v])
            exp = raw2 ** expo if expo is not None else (raw2 if fn is numpy.square else raw1)
            ob.check(f"numpy.{fn.__name__}-is-function-of-norm{sid}", O.same(r, exp), dict(got=repr(r)[:160], expected=repr(exp)[:160]))
    # ---- binary lattice
    for s2 in O.systems():
        for mom2 in (False, True):
            w = O.make(s2, mom2, "2")
            d2 = len(s2) + 1
            pid = f"{sid}x[{','.join(s2)}|{'mom' if mom2 else 'gen'}]"
            flav = mom1 or mom2

            def bvec(name, f, pk, mod, vecs, scal=(), momentum=flav, first=None, ns=None):
                try:
                    with numpy.errstate(all="ignore"):
                        r = f()
                except Exception as e:
                    ob.check(f"defined/{name}{pid}", False, f"{type(e).__name__}: {str(e)[:200]}")
                    return
                try:
                    raw, returns = O.table_call(pk, mod, vecs, scal, ns=ns)
                    exp = O.expected_vector(first if first is not None else vecs[0], momentum, raw, returns)
                    a_ = O.describe(r)
                    ob.check(f"glue/{name}{pid}", O.vec_equal(a_, exp), dict(got=_short(a_), expected=_short(exp)))
                except Exception as e:
                    ob.check(f"glue/{name}{pid}", False, f"{type(e).__name__}: {e}")

            def bsc(name, f, pk, mod, vecs, scal=(), symmetric=False):
                try:
                    with numpy.errstate(all="ignore"):
                        r = f()
                except Exception as e:
                    ob.check(f"defined/{name}{pid}", False, f"{type(e).__name__}: {str(e)[:200]}")
                    return
                try:
                    raw, _ = O.table_call(pk, mod, vecs, scal)
                    ok_ = O.same(r, raw)
                    if not ok_ and symmetric:
                        # Python evaluates `v == w` as w.__eq__(v) when type(w) is a subclass of type(v) (a momentum class is a
                        # subclass of the generic one): the reflected form is the same comparison with the operands exchanged
                        raw2, _ = O.table_call(pk, mod, vecs[::-1], scal)
                        ok_ = O.same(r, raw2)
                    ob.check(f"glue/{name}{pid}", ok_, dict(got=repr(r)[:200], expected=repr(raw)[:200]))
                except Exception as e:
                    ob.check(f"glue/{name}{pid}", False, f"{type(e).__name__}: {e}")

            tol, rt, at = T("tol"), T("rtol"), T("atol")
            if d == d2:
                bvec("add", lambda: v.add(w), pkd, "add", [v, w])
                bvec("subtract", lambda: v.subtract(w), pkd, "subtract", [v, w])
                bvec("operator/v+w", lambda: v + w, pkd, "add", [v, w])
                bvec("operator/v-w", lambda: v - w, pkd, "subtract", [v, w])
                bsc("dot", lambda: v.dot(w), pkd, "dot", [v, w])
                bsc("operator/v@w", lambda: v @ w, pkd, "dot", [v, w])
                bsc("equal", lambda: v.equal(w), pkd, "equal", [v, w])
                bsc("operator/v==w", lambda: v == w, pkd, "equal", [v, w], symmetric=True)
                bsc("not_equal", lambda: v.not_equal(w), pkd, "not_equal", [v, w])
                bsc("operator/v!=w", lambda: v != w, pkd, "not_equal", [v, w], symmetric=True)
                bsc("isclose", lambda: v.isclose(w, rtol=rt, atol=at), pkd, "isclose", [v, w], (rt, at, False))
                pkp = "planar" if d == 2 else "spatial"
                for pred in ("is_parallel", "is_antiparallel", "is_perpendicular"):
                    bsc(pred, lambda pred=pred: getattr(v, pred)(w, tol), pkp, pred, [v, w], (tol,))
                if d == 4:
                    bsc("deltaRapidityPhi", lambda: v.deltaRapidityPhi(w), "lorentz", "deltaRapidityPhi", [v, w])
                    bsc("deltaRapidityPhi2", lambda: v.deltaRapidityPhi2(w), "lorentz", "deltaRapidityPhi2", [v, w])
                    bvec("boost_p4", lambda: v.boost_p4(w), "lorentz", "boost_p4", [v, w], momentum=flav)
                    bvec("boost(4D)", lambda: v.boost(w), "lorentz", "boost_p4", [v, w], momentum=flav)
                    bvec("boostCM_of_p4", lambda: v.boostCM_of_p4(w), "lorentz", "boost_p4", [v, w.neg3D], momentum=flav)
                    bvec("boostCM_of(4D)", lambda: v.boostCM_of(w), "lorentz", "boost_p4", [v, w.neg3D], momentum=flav)
                if d == 3:
                    bvec("cross", lambda: v.cross(w), "spatial", "cross", [v, w])
            else:
                for name in ("add", "subtract", "dot", "equal", "not_equal"):
                    ob.raises(f"typeerror/{name}-different-dimension{pid}", lambda name=name: getattr(v, name)(w))
                ob.raises(f"typeerror/isclose-different-dimension{pid}", lambda: v.isclose(w))
                if d >= 3 or True:
                    for pred in ("is_parallel", "is_antiparallel", "is_perpendicular"):
                        ob.raises(f"typeerror/{pred}-different-dimension{pid}", lambda pred=pred: getattr(v, pred)(w))
                # ... unless one is converted with like()
                bvec("add(w.like(v))", lambda: v.add(w.like(v)), pkd, "add", [v, w.like(v)])
                if d >= 3 and d2 >= 3 and hasattr(v, "cross"):
                    ob.raises(f"typeerror/cross-needs-3D{pid}", lambda: v.cross(w))
            # planar / spatial methods that accept operands of any (sufficient) dimension
            bsc("deltaphi", lambda: v.deltaphi(w), "planar", "deltaphi", [v, w])
            if d >= 3 and d2 >= 3:
                for m_ in ("deltaeta", "deltaR", "deltaR2", "deltaangle"):
                    bsc(m_, lambda m_=m_: getattr(v, m_)(w), "spatial", m_, [v, w])
            if d >= 3:
                if d2 == 3:
                    ang = T("ang")
                    # the axis is a secondary argument: it does not count for flavor or backend
                    bvec("rotate_axis", lambda: v.rotate_axis(w, ang), "spatial", "rotate_axis", [w, v], (ang,), momentum=mom1, first=v)
                else:
                    ob.raises(f"typeerror/rotate_axis-axis-not-3D{pid}", lambda: v.rotate_axis(w, T("ang")))
            if d == 4:
                if d2 == 3:
                    bvec("boost_beta3", lambda: v.boost_beta3(w), "lorentz", "boost_beta3", [v, w], momentum=flav, ns=[3, 2])
                    bvec("boost(3D)", lambda: v.boost(w), "lorentz", "boost_beta3", [v, w], momentum=flav, ns=[3, 2])
                    bvec("boostCM_of_beta3", lambda: v.boostCM_of_beta3(w), "lorentz", "boost_beta3", [v, w.neg3D], momentum=flav, ns=[3, 2])
                    bvec("boostCM_of(3D)", lambda: v.boostCM_of(w), "lorentz", "boost_beta3", [v, w.neg3D], momentum=flav, ns=[3, 2])
                    ob.raises(f"typeerror/boost_p4-needs-4D{pid}", lambda: v.boost_p4(w))
                elif d2 == 4:
                    ob.raises(f"typeerror/boost_beta3-needs-3D{pid}", lambda: v.boost_beta3(w))
                else:
                    ob.raises(f"typeerror/boost-needs-3D-or-4D{pid}", lambda: v.boost(w))
                    ob.raises(f"typeerror/boost_p4-needs-4D{pid}", lambda: v.boost_p4(w))
                    ob.raises(f"typeerror/boost_beta3-needs-3D{pid}", lambda: v.boost_beta3(w))
    return ob.n, ob.bad, ob.ops


def _short(d):
    return dict(system=d["system"], momentum=d["momentum"], coords=[repr(c)[:120] for c in d["coords"]])


def class_closure(ob):
    """cross references ProjectionClass2D/3D/4D, GenericClass, MomentumClass of all concrete classes (all backends)"""
    import vector
    import vector.backends.numpy as N
    import vector.backends.object as OB
    groups = {"object": (OB, "Object"), "numpy": (N, "Numpy")}
    try:
        import vector.backends.awkward as AW
        groups["awkward-array"] = (AW, "Array")
        groups["awkward-record"] = (AW, "Record")
    except Exception:
        pass
    for bk, (mod, suffix) in groups.items():
        for dim in (2, 3, 4):
            for flav in ("Vector", "Momentum"):
                name = f"{flav}{suffix}{dim}D"
                cls = getattr(mod, name, None)
                if cls is None:
                    ob.check(f"class-exists/{name}", False, "missing class")
                    continue
                for pd in (2, 3, 4):
                    want = getattr(mod, f"{flav}{suffix}{pd}D", None)
                    ob.check(f"class-closure/{name}.ProjectionClass{pd}D", getattr(cls, f"ProjectionClass{pd}D", None) is want,
                             f"{getattr(cls, f'ProjectionClass{pd}D', None)} is not {want}")
                ob.check(f"class-closure/{name}.GenericClass", getattr(cls, "GenericClass", None) is getattr(mod, f"Vector{suffix}{dim}D"))
                ob.check(f"class-closure/{name}.MomentumClass", getattr(cls, "MomentumClass", None) is getattr(mod, f"Momentum{suffix}{dim}D"))


def main(argv):
    report = C.Report("C05")
    t0 = time.time()
    ob = O.Obligations("C05")
    nkeys = census(ob)
    class_closure(ob)
    from .. import numbaglue
    ng, ng_skipped = numbaglue.run(os.path.join(C.REPO, "src", "vector"))
    for oid, ok, d in ng:
        ob.check(oid, ok, d)
    ob.check("numba-glue/analysed-something", len(ng) >= 30, f"only {len(ng)} overloads have the analysable shape")
    n_before = ob.n
    backend_lattice(ob)
    n_backend = ob.n - n_before
    jobs = [(s, m) for s in O.systems() for m in (False, True)]
    res = O.concolic_map(shard, jobs)
    n = ob.n + sum(r[0] for r in res)
    bad = ob.bad + [b for r in res for b in r[1]]
    # the named conversions (to_<system>, to_VectorND, like): result dimension / coordinate system as named - the C04 lattice under this property's label
    from . import c04
    cres = O.concolic_map(c04.shard, jobs)
    n += sum(r[0] for r in cres)
    conv_bad = [(oid.replace("C04/", "C05/conversion:", 1), d_) for r in cres for oid, d_ in r[1]]
    bad += conv_bad
    conv_ids = {oid for oid, _ in conv_bad}
    # bounded part: result dimension / coordinate system / flavor of every method on the NumPy and Awkward backends against the object
    # backend (the Engine D lattice of C03; only its class obligations, tagged C05, belong here)
    from .. import engined as E
    u_, b_ = E.lattice(C.tier(), C.seed())
    rd = C.pool_map(E.unary_shard, u_) + C.pool_map(E.binary_shard, b_)
    arr_bad = [(oid.replace("C05/", "C05/array-lattice/", 1), d) for r in rd for p_, oid, d in r[1] if p_ == "C05"]
    n_arr = sum(r[2].get("C05", 0) for r in rd)
    n += len(arr_bad)          # passing bounded evaluations are reported separately and never counted as discharged obligations
    bad += arr_bad
    arr_ids = {oid for oid, _ in arr_bad}
    groups = {}
    for oid, detail in bad:
        groups.setdefault(oid.split("[")[0], []).append((oid, detail))
    nviol = nknown = 0
    for gname, items in sorted(groups.items()):
        oid, detail = items[0]
        kf = C.match_known("C05", oid, dict(detail=str(detail)))
        if kf:
            nknown += len(items)
            report.known_finding(oid, kf["what"] + f" ({len(items)} lattice points)")
        else:
            nviol += len(items)
            report.violation(oid, dict(kind="object-backend-symbolic-evaluation", obligation_group=gname, failing_lattice_points=len(items),
                                       first=dict(obligation=oid, detail=detail), others=[o for o, _ in items[1:6]],
                                       replay_handler="vv.props.engined_prop:replay" if oid in arr_ids else "vv.props.c05:replay_conv" if oid in conv_ids else "vv.props.c05:replay"), has_input="/numba-glue/" not in oid)
    level = "proof" if not bad and not report.errors else "other"
    coverage = dict(obligations=n - nknown, discharged=n - len(bad), obligations_posed=n, known_findings=nknown, violations=nviol,
                    by_backend={"term identity on symbolic evaluation of the real object backend": n - len(bad)},
                    table_entries=nkeys, lattice_shards=len(jobs), exhaustive=True,
                    backend_pairing_lattice=dict(obligations=n_backend, label="run-time evaluation of the class rules on concrete tiny operands: object, NumPy (shape (2,)), "
                                                 "Awkward array (2 lists of 1), Awkward record; x flavors x dimensions x {add, subtract, cross, boost_p4, rotate_axis}"),
                    array_backend_class_lattice=dict(evaluations=n_arr, failed=len(arr_bad), label="BOUNDED run-time contracts (not counted in `obligations`; a failure is reported as a violation): result coordinate system and flavor of every "
                                                     "method on NumPy / Awkward operands equal those of the object-backend result, over the Engine D lattice of C03 (layouts, pairings)"),
                    numba_glue_static=dict(obligations=len(ng), not_analysed=ng_skipped, how="static contract on backends/_numba_object.py: the kernel looked up for a signature receives exactly that "
                                           "signature's coordinates, operand by operand (AST, path-sensitive in the if-branches); Numba's own compilation is out of reach (C07)"),
                    checker_cmd=f"./check C05 --tier {C.tier()}",
                    trusted_base=["parametricity of the object backend in its coordinate values (a token cannot be inspected without raising)",
                                  "NumPy's __array_ufunc__ / operator protocol delivers v+w, numpy.sqrt(v), ... to VectorObject.__array_ufunc__",
                                  "CPython"],
                    samples=[dict(obligation="C05/glue/rotate_nautical==rotate_euler(roll,pitch,yaw,zyx)[xy,z|gen]", status="term-identical"),
                             dict(obligation="C05/typeerror/add-different-dimension[xy|gen]x[xy,z|gen]", status="TypeError raised")],
                    explanation=(f"object backend executed on symbolic coordinates over the complete lattice 20 systems x 2 flavors (unary) and 20x20 systems x 2x2 flavors "
                                 f"(binary, all dimension pairings): {n} obligations (glue to the live table entry in contract order, result flavor/dimension/coordinate "
                                 f"system, pass-through of stored higher coordinates, TypeError rules, operators == methods, table totality over {nkeys} entries, class cross "
                                 f"references), {len(bad)} failed."))
    C.write_evidence("C05", level, coverage,
                     ["values are universally quantified by parametricity; the exponent of ** and the Euler order string are configuration values (2, 3, 1/2; 12 orders x 2 cases)",
                      "NumPy / Awkward result classes, record names and broadcasting are covered by the bounded C03 check, not here",
                      "numpy.isclose/allclose on object vectors are compared through the method form"], time.time() - t0, len(report.violations))
    print(f"C05: obligations={n} failed={len(bad)} known={nknown} wall={time.time() - t0:.1f}s")
    return report.exit_code()


def replay(prop, rp, path):
    """re-run the shard of the recorded obligation"""
    import re
    oid = rp["first"]["obligation"]
    if "/numba-glue/" in oid:
        from .. import numbaglue
        ng, _ = numbaglue.run(os.path.join(C.REPO, "src", "vector"))
        still = [x for x in ng if not x[1] and oid.endswith(x[0])]
        if still:
            print("still failing:", still[0])
            print(f"VIOLATION property={prop} replay={path} no-failing-input-found")
            return 1
        print("obligation holds on this tree")
        return 0
    m = re.search(r"\[([a-z,]+)\|(mom|gen)\]", oid)
    if not m:
        print(rp)
        return 1
    n, bad = shard((tuple(m.group(1).split(",")), m.group(2) == "mom"))[:2]
    hit = [b for b in bad if b[0] == oid]
    for b in hit[:3]:
        print("still failing:", b)
    if hit:
        print(f"VIOLATION property={prop} replay={path}")
        return 1
    print("obligation holds on this tree")
    return 0


# ------------------------------------------------------------------------------------------------ backend pairing lattice
def backend_lattice(ob):
    """result backend / flavor / dimension for every backend pairing (object, NumPy, Awkward array, Awkward record) x flavors x
    operand order - concrete tiny operands (the rules are about classes; values are irrelevant), all dimension-compatible
    methods that take two vectors.  Run-time evaluation of the stated rule on the complete finite lattice."""
    import numpy as np
    import vector
    try:
        import awkward as ak
    except Exception:
        ak = None
    PRIO = {"object": 0, "numpy": 1, "awkward": 2}

    def mk(backend, mom, dim):
        names = ["x", "y", "z", "t"][:dim]
        if mom:
            names = [{"x": "px", "y": "py", "z": "pz", "t": "E"}[n] for n in names]
        vals = [1.5, 2.5, 3.5, 9.5][:dim]
        if backend == "object":
            return vector.obj(**dict(zip(names, vals)))
        if backend == "numpy":
            return vector.array({n: np.array([v, v + 1]) for n, v in zip(names, vals)})
        if backend == "awkward":
            return vector.Array([[dict(zip(names, vals))], [dict(zip(names, [v + 1 for v in vals]))]])
        if backend == "record":
            return vector.Array([dict(zip(names, vals))])[0]

    def backend_of(r):
        if isinstance(r, vector.backends.object.VectorObject):
            return "object"
        if isinstance(r, vector.backends.numpy.VectorNumpy):
            return "numpy"
        if ak is not None and isinstance(r, (ak.Array, ak.Record)):
            return "awkward"
        return type(r).__name__

    def flavor_of(r):
        if ak is not None and isinstance(r, (ak.Array, ak.Record)):
            return isinstance(r, vector.Momentum) or "Momentum" in (getattr(r.layout, "parameters", {}) or {}).get("__record__", "") or \
                "Momentum" in str(ak.parameters(r).get("__record__", "")) or _deep_record(r).startswith("Momentum")
        return isinstance(r, vector.Momentum)

    def _deep_record(r):
        lay = r.layout
        while not hasattr(lay, "contents") or getattr(lay, "is_list", False) or getattr(lay, "is_option", False):
            if hasattr(lay, "content"):
                lay = lay.content
            else:
                break
        return str(lay.parameter("__record__") or "")

    backends = ["object", "numpy"] + (["awkward", "record"] if ak is not None else [])
    for b1 in backends:
        for b2 in backends:
            for m1 in (False, True):
                for m2 in (False, True):
                    for dim in (2, 3, 4):
                        a, b = mk(b1, m1, dim), mk(b2, m2, dim)
                        want_b = max(("awkward" if x == "record" else x for x in (b1, b2)), key=lambda x: PRIO[x])
                        for meth in ("add", "subtract") + (("cross",) if dim == 3 else ()) + (("boost_p4",) if dim == 4 else ()):
                            pid = f"[{b1}|{'mom' if m1 else 'gen'}|{dim}D]x[{b2}|{'mom' if m2 else 'gen'}]"
                            try:
                                r = getattr(a, meth)(b)
                            except Exception as e:
                                ob.check(f"backend-lattice/defined/{meth}{pid}", False, f"{type(e).__name__}: {str(e)[:150]}")
                                continue
                            ob.check(f"backend-lattice/backend/{meth}{pid}", backend_of(r) == want_b, f"result backend {backend_of(r)}, expected {want_b}")
                            ob.check(f"backend-lattice/flavor/{meth}{pid}", bool(flavor_of(r)) == (m1 or m2),
                                     f"result momentum={flavor_of(r)}, operands momentum=({m1},{m2}), result type {type(r).__name__}")
                            ob.check(f"backend-lattice/dimension/{meth}{pid}", vector.dim(r) == (3 if meth == "cross" else dim), f"dim {vector.dim(r)}")
                        if dim >= 3 and PRIO["awkward" if b2 == "record" else b2] <= PRIO["awkward" if b1 == "record" else b1]:
                            # (an axis of a higher-priority backend cannot be broadcast into the lower-priority result: by design)
                            axis = mk(b2, m2, 3)
                            pid = f"[{b1}|{'mom' if m1 else 'gen'}|{dim}D]x[axis:{b2}|{'mom' if m2 else 'gen'}]"
                            try:
                                r = a.rotate_axis(axis, 0.3)
                                wantb = "awkward" if b1 == "record" else b1
                                # the axis is a secondary argument: it counts neither for the backend nor for the flavor
                                ob.check(f"backend-lattice/rotate_axis-flavor{pid}", bool(flavor_of(r)) == m1, f"momentum={flavor_of(r)} but self momentum={m1}")
                                ob.check(f"backend-lattice/rotate_axis-backend{pid}", backend_of(r) == wantb or PRIO.get(backend_of(r), 9) >= PRIO[wantb],
                                         f"backend {backend_of(r)} for self backend {b1}")
                            except Exception as e:
                                ob.check(f"backend-lattice/defined/rotate_axis{pid}", False, f"{type(e).__name__}: {str(e)[:150]}")


def replay_conv(prop, rp, path):
    from . import c04
    rp2 = dict(rp)
    rp2["first"] = dict(rp["first"], obligation=rp["first"]["obligation"].replace("C05/conversion:", "C04/", 1))
    return c04.replay(prop, rp2, path)
