"""C11 - vector-space, dot, cross and unit-vector laws (DESIGN 4/C11)."""
from ..lemmas import LemmaJob
from . import lemma_prop

MODS = ("add", "subtract", "scale", "dot", "unit", "cross", "rho2", "mag2", "tau2", "rho", "mag", "tau")
SIG = {2: "xy", 3: "xy,z", 4: "xy,z,t"}
PK = {2: "planar", 3: "spatial", 4: "lorentz"}
NORM2 = {2: "rho2", 3: "mag2", 4: "tau2"}


def l_space(dim):
    def lemma(L):
        pk, s = PK[dim], SIG[dim]
        a, b, c = L.cart("a", dim), L.cart("b", dim), L.cart("c", dim)
        f, g = L.real("f"), L.real("g")
        add, sub = L.fn(pk, "add", f"{s},{s}"), L.fn(pk, "subtract", f"{s},{s}")
        scale, dot = L.fn(pk, "scale", s), L.fn(pk, "dot", f"{s},{s}")
        L.eq("add-commutative", add(*a, *b), add(*b, *a))
        L.eq("add-associative", add(*add(*a, *b), *c), add(*a, *add(*b, *c)))
        L.eq("subtract-inverse", sub(*add(*a, *b), *b), tuple(a))
        L.eq("scale-distributes", scale(f, *add(*a, *b)), add(*scale(f, *a), *scale(f, *b)))
        L.eq("scale-composes", scale(f, *scale(g, *a)), scale(f * g, *a))
        L.eq("negation", sub(*[0 * x for x in a], *a), scale(-1, *a))
        L.eq("dot-symmetric", dot(*a, *b), dot(*b, *a))
        L.eq("dot-bilinear", dot(*add(*scale(f, *a), *b), *c), f * dot(*a, *c) + dot(*b, *c))
        L.eq("dot-self", dot(*a, *a), L.fn(pk, NORM2[dim], s)(*a))
    return lemma


def l_cross(L):
    s = "xy,z"
    a, b, c = L.cart("a", 3), L.cart("b", 3), L.cart("c", 3)
    f = L.real("f")
    cross, dot, add, scale = (L.fn("spatial", "cross", f"{s},{s}"), L.fn("spatial", "dot", f"{s},{s}"), L.fn("spatial", "add", f"{s},{s}"),
                              L.fn("spatial", "scale", s))
    ab = cross(*a, *b)
    L.eq("antisymmetric", ab, scale(-1, *cross(*b, *a)))
    L.eq("bilinear", cross(*add(*scale(f, *a), *b), *c), add(*scale(f, *cross(*a, *c)), *cross(*b, *c)))
    L.eq("orthogonal-a", dot(*ab, *a), 0)
    L.eq("orthogonal-b", dot(*ab, *b), 0)
    L.eq("lagrange", dot(*ab, *ab), dot(*a, *a) * dot(*b, *b) - dot(*a, *b) * dot(*a, *b))


def l_unit(dim):
    def lemma(L):
        pk, s = PK[dim], SIG[dim]
        a = L.cart("a", dim)
        n2 = L.fn(pk, NORM2[dim], s)
        if dim == 4:
            L.assume(n2(*a) > 0) if L.case["kind"] == "timelike" else L.assume(n2(*a) < 0)
        else:
            L.assume(n2(*a) > 0)
        u = L.fn(pk, "unit", s)(*a)
        L.eq("norm-one", n2(*u), 1 if (dim < 4 or L.case["kind"] == "timelike") else -1)
        # parallel: u is a positive multiple of a  (u_i * a_j == u_j * a_i and u.a > 0 in the Euclidean sense)
        for i in range(dim):
            for j in range(i + 1, dim):
                L.eq(f"parallel.{i}{j}", u[i] * a[j], u[j] * a[i])
        L.holds("same-direction", sum((u[i] * a[i] for i in range(1, dim)), u[0] * a[0]) > 0)
    return lemma


LEMMAS = [LemmaJob("C11", f"{PK[d]}/vector-space-and-dot", l_space(d)) for d in (2, 3, 4)]
LEMMAS.append(LemmaJob("C11", "spatial/cross-laws", l_cross))
LEMMAS.append(LemmaJob("C11", "planar/unit", l_unit(2), cases=[{"kind": "euclid"}]))
LEMMAS.append(LemmaJob("C11", "spatial/unit", l_unit(3), cases=[{"kind": "euclid"}]))
LEMMAS.append(LemmaJob("C11", "lorentz/unit", l_unit(4), cases=[{"kind": "timelike"}, {"kind": "spacelike"}]))


def norm_ufuncs(report, results, coverage):
    """bounded: abs(v), v**2, v**k and numpy.absolute/square/sqrt/cbrt/power of NumPy and Awkward vector arrays are functions of the
    norm (rho, mag or tau by dimension) - run-time contract over 20 systems x 2 flavors x {NumPy, Awkward array}"""
    import random
    import numpy as np
    from .. import arrays as AR
    from .. import common as C
    rng = random.Random(C.seed())
    n = 0
    bad = []
    for s_ in AR.systems():
        d = len(s_) + 1
        for mom in (False, True):
            for layout in ("np(3)", "ak-jagged"):
                if layout.startswith("ak") and AR.ak is None:
                    continue
                v, struct = AR.build(layout, s_, mom, rng)
                with np.errstate(all="ignore"):
                    norm = AR.to_nested(getattr(v, {2: "rho", 3: "mag", 4: "tau"}[d]))
                    norm2 = AR.to_nested(getattr(v, {2: "rho2", 3: "mag2", 4: "tau2"}[d]))

                    def mapn(x, f):
                        return None if x is None else ([mapn(y, f) for y in x] if isinstance(x, list) else f(x))
                    cases = [("abs", lambda: abs(v), mapn(norm, lambda r: r)), ("**2", lambda: v ** 2, mapn(norm2, lambda r: r)), ("**3", lambda: v ** 3, mapn(norm, lambda r: r ** 3)),
                             ("**0.5", lambda: v ** 0.5, mapn(norm, lambda r: r ** 0.5)), ("numpy.absolute", lambda: np.absolute(v), mapn(norm, lambda r: r)),
                             ("numpy.square", lambda: np.square(v), mapn(norm2, lambda r: r)), ("numpy.sqrt", lambda: np.sqrt(v), mapn(norm, lambda r: r ** 0.5)),
                             ("numpy.cbrt", lambda: np.cbrt(v), mapn(norm, lambda r: r ** (1 / 3))), ("numpy.power(v,3.5)", lambda: np.power(v, 3.5), mapn(norm, lambda r: r ** 3.5)),
                             ("numpy.power(v,2)", lambda: np.power(v, 2), mapn(norm2, lambda r: r))]
                    for name, f, exp in cases:
                        n += 1
                        oid = f"C11/norm-ufunc/{name}[{','.join(s_)}|{'mom' if mom else 'gen'}|{layout}]"
                        try:
                            got = AR.to_nested(f())
                            if not AR.close(got, exp, 1e-9, 1e-10):
                                bad.append((oid, dict(got=str(got)[:120], expected=str(exp)[:120])))
                        except Exception as e:
                            bad.append((oid, f"{type(e).__name__}: {str(e)[:120]}"))
    coverage["bounded_norm_ufuncs"] = dict(evaluations=n, failed=len(bad), bound="20 systems x 2 flavors x NumPy shape (3,) and jagged Awkward arrays, well-conditioned timelike values",
                                           label="bounded - not counted as proved")
    groups = {}
    for oid, d in bad:
        groups.setdefault(oid.split("[")[0], []).append((oid, d))
    for g, items in sorted(groups.items()):
        oid, d = items[0]
        kf = C.match_known("C11", oid, dict(detail=str(d)))
        if kf:
            report.known_finding(oid, kf["what"])
        else:
            report.violation(oid, dict(kind="engineD-runtime-contract", failing_lattice_points=len(items), first=dict(obligation=oid, detail=d), replay_handler="vv.props.c11:replay"), has_input=True)


def replay(prop, rp, path):
    class R:
        def __init__(s): s.v = []
        def violation(s, oid, *a, **k): s.v.append(oid)
        def known_finding(s, *a): pass
    r = R()
    norm_ufuncs(r, [], {})
    hit = [o for o in r.v if o.split("[")[0] == rp["first"]["obligation"].split("[")[0]]
    if hit:
        print("still failing:", hit[:2])
        print(f"VIOLATION property={prop} replay={path}")
        return 1
    print("contract holds on this tree")
    return 0


def main(argv):
    return lemma_prop.run("C11", __name__, MODS, post=norm_ufuncs,
                          extra_assumptions=["abs(v), v**2, numpy.sqrt/cbrt/power on vectors are decided at the public-method level (C05 glue obligations for the object "
                                             "backend; NumPy/Awkward ufunc tables in the bounded C03 check)"],
                          note="Vector-space, dot, cross and unit laws on the real Cartesian kernels in 2D/3D/4D; the C01 obligations of add, subtract, scale, "
                               "dot, cross, unit and the norm accessors transport them to every coordinate system (incl. the polar-specialised formulas).")
