"""C11 - vector-space, dot, cross and unit-vector laws (DESIGN 4/C11)."""
from ..lemmas import LemmaJob
from . import lemma_prop

MODS = ("add", "subtract", "scale", "dot", "unit", "cross", "rho2", "mag2", "tau2", "rho", "mag", "tau")
SIG = {2: "xy", 3: "xy,z", 4: "xy,z,t"}
PK = {2: "planar", 3: "spatial", 4: "lorentz"}
NORM2 = {2: "rho2", 3: "mag2", 4: "tau2"}


def l_space(dim):
    def lemma(L):
        pk, s = PK[dim], SIG[dim]
        a, b, c = L.cart("a", dim), L.cart("b", dim), L.cart("c", dim)
        f, g = L.real("f"), L.real("g")
        add, sub = L.fn(pk, "add", f"{s},{s}"), L.fn(pk, "subtract", f"{s},{s}")
        scale, dot = L.fn(pk, "scale", s), L.fn(pk, "dot", f"{s},{s}")
        L.eq("add-commutative", add(*a, *b), add(*b, *a))
        L.eq("add-associative", add(*add(*a, *b), *c), add(*a, *add(*b, *c)))
        L.eq("subtract-inverse", sub(*add(*a, *b), *b), tuple(a))
        L.eq("scale-distributes", scale(f, *add(*a, *b)), add(*scale(f, *a), *scale(f, *b)))
        L.eq("scale-composes", scale(f, *scale(g, *a)), scale(f * g, *a))
        L.eq("negation", sub(*[0 * x for x in a], *a), scale(-1, *a))
        L.eq("dot-symmetric", dot(*a, *b), dot(*b, *a))
        L.eq("dot-bilinear", dot(*add(*scale(f, *a), *b), *c), f * dot(*a, *c) + dot(*b, *c))
        L.eq("dot-self", dot(*a, *a), L.fn(pk, NORM2[dim], s)(*a))
    return lemma


def l_cross(L):
    s = "xy,z"
    a, b, c = L.cart("a", 3), L.cart("b", 3), L.cart("c", 3)
    f = L.real("f")
    cross, dot, add, scale = (L.fn("spatial", "cross", f"{s},{s}"), L.fn("spatial", "dot", f"{s},{s}"), L.fn("spatial", "add", f"{s},{s}"),
                              L.fn("spatial", "scale", s))
    ab = cross(*a, *b)
    L.eq("antisymmetric", ab, scale(-1, *cross(*b, *a)))
    L.eq("bilinear", cross(*add(*scale(f, *a), *b), *c), add(*scale(f, *cross(*a, *c)), *cross(*b, *c)))
    L.eq("orthogonal-a", dot(*ab, *a), 0)
    L.eq("orthogonal-b", dot(*ab, *b), 0)
    L.eq("lagrange", dot(*ab, *ab), dot(*a, *a) * dot(*b, *b) - dot(*a, *b) * dot(*a, *b))


def l_unit(dim):
    def lemma(L):
        pk, s = PK[dim], SIG[dim]
        a = L.cart("a", dim)
        n2 = L.fn(pk, NORM2[dim], s)
        if dim == 4:
            L.assume(n2(*a) > 0) if L.case["kind"] == "timelike" else L.assume(n2(*a) < 0)
        else:
            L.assume(n2(*a) > 0)
        u = L.fn(pk, "unit", s)(*a)
        L.eq("norm-one", n2(*u), 1 if (dim < 4 or L.case["kind"] == "timelike") else -1)
        # parallel: u is a positive multiple of a  (u_i * a_j == u_j * a_i and u.a > 0 in the Euclidean sense)
        for i in range(dim):
            for j in range(i + 1, dim):
                L.eq(f"parallel.{i}{j}", u[i] * a[j], u[j] * a[i])
        L.holds("same-direction", sum((u[i] * a[i] for i in range(1, dim)), u[0] * a[0]) > 0)
    return lemma


LEMMAS = [LemmaJob("C11", f"{PK[d]}/vector-space-and-dot", l_space(d)) for d in (2, 3, 4)]
LEMMAS.append(LemmaJob("C11", "spatial/cross-laws", l_cross))
LEMMAS.append(LemmaJob("C11", "planar/unit", l_unit(2), cases=[{"kind": "euclid"}]))
LEMMAS.append(LemmaJob("C11", "spatial/unit", l_unit(3), cases=[{"kind": "euclid"}]))
LEMMAS.append(LemmaJob("C11", "lorentz/unit", l_unit(4), cases=[{"kind": "timelike"}, {"kind": "spacelike"}]))


def main(argv):
    return lemma_prop.run("C11", __name__, MODS,
                          extra_assumptions=["abs(v), v**2, numpy.sqrt/cbrt/power on vectors are decided at the public-method level (C05 glue obligations for the object "
                                             "backend; NumPy/Awkward ufunc tables in the bounded C03 check)"],
                          note="Vector-space, dot, cross and unit laws on the real Cartesian kernels in 2D/3D/4D; the C01 obligations of add, subtract, scale, "
                               "dot, cross, unit and the norm accessors transport them to every coordinate system (incl. the polar-specialised formulas).")
