"""C20 - operations leave no trace in global state and are thread-deterministic (DESIGN 4/C20).

(a) Engine C: frame clauses `assigns \\nothing global` for every function in src/vector (effect analysis: global/nonlocal
    statements, stores to module/class attributes, mutator calls on module-level objects, process-wide setters such as
    numpy.seterr / warnings.filterwarnings, numpy.errstate used other than as a `with` context); allow-listed writers are
    register_awkward / register_numba and import-time table construction, whose call sites are checked to be module level;
(b) bounded run-time contract: numpy.geterr(), warnings.filters, print options and awkward.behavior are identical before and
    after a sweep of public calls (returning and raising) under several prior settings; register_awkward is idempotent;
(c) thread determinism: a corollary of C16 + these frames + the clause that no *shared* helper instance (module-level or handed out by a
    caching factory) is written through `self` by a method (static, `shared_instance_state`); plus a BOUNDED probe running the same
    operations concurrently from several threads against their sequential results (`thread_probe`; interleavings are not enumerated)."""
from __future__ import annotations

import ast
import os
import time

from .. import common as C
from .. import effects as EF
from .. import engined as E

GLOBAL_KINDS = {"global-statement", "nonlocal-statement", "store-to-module-state", "mutator-call-on-module-state", "global-state-mutator", "errstate-outside-with",
                "augmented-assignment-on-module-state"}
REGISTRATION = {"register_awkward", "register_numba"}
TABLE_BUILDERS = {"make_conversion", "make_function"}


def allowed(site):
    fn = site["function"].split(".")[-1]
    if fn in REGISTRATION:
        return "register_awkward / register_numba are the documented writers of global registries (idempotence checked at run time)"
    if fn in TABLE_BUILDERS and site["text"].startswith("dispatch_map["):
        return "import-time construction of the module's own dispatch table (call sites checked to be at module level)"
    if site["where"].startswith(("vector/backends/_numba", "vector/backends/numba_")):
        return "Numba registration internals, run once by register_numba / at import of the numba backend"
    return None


def table_builders_only_at_import(src, check):
    """make_conversion / make_function are only called from module level (import time), never from a function"""
    for dp, dn, fns in os.walk(os.path.join(src, "_compute")):
        for f in fns:
            if not f.endswith(".py"):
                continue
            tree = ast.parse(open(os.path.join(dp, f)).read())
            for fn in ast.walk(tree):
                if isinstance(fn, (ast.FunctionDef, ast.AsyncFunctionDef, ast.Lambda)):
                    for node in ast.walk(fn):
                        if isinstance(node, ast.Call) and isinstance(node.func, ast.Name) and node.func.id in TABLE_BUILDERS:
                            check(f"static/table-builder-called-at-run-time/{f}:{getattr(fn, 'name', 'lambda')}", False, f"line {node.lineno}")


def registration_only_by_the_user(src, check):
    """the allow-listed writers of global registries (register_awkward / register_numba) are *entry points for the user*: no function of the
    library may call them (an operation that registers as a side effect leaves a trace in awkward.behavior / the registration flag)"""
    n = 0
    for dp, dn, fns in os.walk(src):
        for f in sorted(fns):
            if not f.endswith(".py") or f.startswith("_version"):
                continue
            rel = os.path.relpath(os.path.join(dp, f), os.path.dirname(src))
            if rel.startswith(("vector/backends/_numba", "vector/backends/numba_")):
                continue
            tree = ast.parse(open(os.path.join(dp, f)).read())
            for fn in ast.walk(tree):
                if isinstance(fn, (ast.FunctionDef, ast.AsyncFunctionDef, ast.Lambda)) and getattr(fn, "name", "") not in REGISTRATION:
                    for node in ast.walk(fn):
                        if isinstance(node, ast.Call):
                            nm = node.func.id if isinstance(node.func, ast.Name) else (node.func.attr if isinstance(node.func, ast.Attribute) else None)
                            if nm in REGISTRATION:
                                n += 1
                                check(f"static/registration-called-by-a-library-function/{rel}:{getattr(fn, 'name', 'lambda')}", False, dict(line=node.lineno, text=ast.unparse(node)[:80]))
    return n


def shared_instance_state(src, sites, check):
    """Purity clause behind thread determinism: an operation must not write state that outlives the call.  Beyond module state (above), that is
    the instance state of helper objects that are *shared* between calls: a class whose instances are created at module level or handed out by
    a caching factory (functools.lru_cache / functools.cache) must not have methods (other than __init__/__new__) that write through `self`."""
    from .c16 import OPERAND_KINDS
    shared = {}      # class name -> how its instances come to be shared
    for dp, dn, fns in os.walk(src):
        for f in sorted(fns):
            if not f.endswith(".py") or f.startswith("_version"):
                continue
            tree = ast.parse(open(os.path.join(dp, f)).read())
            classes = {n.name for n in ast.walk(tree) if isinstance(n, ast.ClassDef)}
            for node in tree.body:
                # module-level instance:  NAME = Cls(...)
                if isinstance(node, (ast.Assign, ast.AnnAssign)) and isinstance(node.value, ast.Call) and isinstance(node.value.func, ast.Name) and node.value.func.id in classes:
                    shared.setdefault(node.value.func.id, f"module-level instance in {f}:{node.lineno}")
            for fn in ast.walk(tree):
                if isinstance(fn, (ast.FunctionDef, ast.AsyncFunctionDef)):
                    decos = [ast.unparse(d) for d in fn.decorator_list]
                    if any(("lru_cache" in d or d.endswith("cache") or "cache(" in d) for d in decos):
                        for node in ast.walk(fn):
                            if isinstance(node, ast.Return) and isinstance(node.value, ast.Call) and isinstance(node.value.func, ast.Name) and node.value.func.id in classes:
                                shared.setdefault(node.value.func.id, f"instances cached by {fn.name} ({', '.join(decos)}) in {f}:{fn.lineno}")
    n = 0
    for s_ in sites:
        if s_["kind"] not in OPERAND_KINDS:
            continue
        parts = s_["function"].split(".")
        if len(parts) < 2 or parts[-1] in ("__init__", "__new__"):
            continue
        cls = parts[-2]
        if cls in shared and s_.get("root") in ("self", None):
            n += 1
            check(f"static/shared-instance-state/{s_['function']}:{s_['text'][:60]}", False, dict(kind=s_["kind"], text=s_["text"], where=s_["where"], shared_because=shared[cls]))
    return shared


def thread_probe(F, rounds=40, nthreads=4):
    """BOUNDED: the same operations evaluated concurrently from several threads give exactly the sequential results"""
    import threading
    import numpy as np
    import vector
    try:
        import awkward as ak
    except Exception:
        ak = None
    arrs = [("numpy", vector.array({"x": np.arange(1.0, 6.0), "y": np.arange(2.0, 7.0), "z": np.arange(3.0, 8.0), "t": np.arange(10.0, 15.0)}))]
    if ak is not None:
        arrs.append(("awkward", vector.Array([[{"x": 1.0, "y": 2.0, "z": 3.0, "t": 10.0}, {"x": -1.0, "y": 0.5, "z": 2.0, "t": 9.0}], [], [{"x": 0.25, "y": -2.0, "z": 1.0, "t": 8.0}]])))
    ops = [("scale", lambda v, k: v.scale(k)), ("rotateZ", lambda v, k: v.rotateZ(k)), ("boostZ", lambda v, k: v.boostZ(beta=k / 10.0)), ("rotate_axis", lambda v, k: v.rotate_axis(v.to_Vector3D(), k))]

    def norm(r):
        return [np.asarray(ak.to_numpy(ak.flatten(getattr(r, c), axis=None)) if (ak is not None and isinstance(r, ak.Array)) else getattr(r, c)).tolist() for c in ("x", "y", "z", "t")]
    for bname, v in arrs:
        for oname, op in ops:
            ks = [0.5 + 0.37 * i for i in range(nthreads)]
            ref = [norm(op(v, k)) for k in ks]
            bad = []
            barrier = threading.Barrier(nthreads)

            def work(i):
                try:
                    for _ in range(rounds):
                        barrier.wait(timeout=30)
                        got = norm(op(v, ks[i]))
                        if got != ref[i]:
                            bad.append((i, got[0][:2], ref[i][0][:2]))
                except Exception as e:      # a raise in one thread is a difference too
                    bad.append((i, f"{type(e).__name__}: {str(e)[:80]}", None))
                    try:
                        barrier.abort()
                    except Exception:
                        pass
            ts = [threading.Thread(target=work, args=(i,)) for i in range(nthreads)]
            for t in ts:
                t.start()
            for t in ts:
                t.join(120)
            F.check("C20", f"threads/concurrent-equals-sequential/{oname}|{bname}", not bad, dict(first=bad[:2], rounds=rounds, threads=nthreads))


def state_independence_probe(F):
    """BOUNDED: results do not depend on which operations ran before - a fixed panel of calls gives bit-identical results before and after a sweep of
    every unary operation over all coordinate systems (hidden module / class / cache state that survives a call shows here)"""
    import random
    import numpy as np
    import vector
    from .. import arrays as AR
    try:
        import awkward as ak
    except Exception:
        ak = None
    rng = random.Random(11)
    panel_ops = [("rotateZ", lambda v: v.rotateZ(0.3)), ("scale2D", lambda v: v.scale2D(2.0)), ("neg2D", lambda v: v.neg2D), ("rotateX", lambda v: v.rotateX(0.2)),
                 ("scale", lambda v: v.scale(-1.5)), ("unit", lambda v: v.unit()), ("boostZ", lambda v: v.boostZ(beta=0.25)), ("to_xyzt", lambda v: v.to_xyzt()), ("add", lambda v: v.add(v))]
    operands = []
    for s_ in (("xy", "z", "t"), ("rhophi", "eta", "tau"), ("rhophi", "theta", "t")):
        for layout in ("np(3)", "ak-jagged", "ak-record", "object"):
            if layout.startswith("ak") and ak is None:
                continue
            for mom in (False, True):
                operands.append((f"[{','.join(s_)}|{'mom' if mom else 'gen'}|{layout}]", AR.build(layout, s_, mom, rng)[0]))

    def digest():
        out = {}
        for tag, v in operands:
            for oname, op in panel_ops:
                try:
                    with np.errstate(all="ignore"):
                        r = op(v)
                    if ak is not None and isinstance(r, (ak.Array, ak.Record)):
                        out[oname + tag] = (str(ak.type(r)) if isinstance(r, ak.Array) else "record", tuple(ak.fields(r)), repr(ak.to_list(r)))
                    elif isinstance(r, np.ndarray):
                        out[oname + tag] = (type(r).__name__, r.dtype.names, r.tobytes())
                    else:
                        out[oname + tag] = (type(r).__name__, repr(r))
                except Exception as e:
                    out[oname + tag] = ("raises", type(e).__name__)
        return out
    before = digest()
    for s_ in AR.systems():
        for mom in (False, True):
            for layout in ("np(3)", "ak-jagged", "ak-record", "object"):
                if layout.startswith("ak") and ak is None:
                    continue
                try:
                    v = AR.build(layout, s_, mom, rng)[0]
                except Exception:
                    continue
                for name, op in E.unary_ops(len(s_) + 1, mom):
                    try:
                        with np.errstate(all="ignore"):
                            op(v)
                    except Exception:
                        pass
    after = digest()
    for k in before:
        F.check("C20", f"state/result-independent-of-earlier-calls/{k}", before[k] == after[k], dict(before=str(before[k])[:160], after=str(after[k])[:160]))


def runtime_contract(F):
    import copy
    import warnings
    import numpy as np
    import vector
    try:
        import awkward as ak
    except Exception:
        ak = None

    def state():
        return dict(geterr=np.geterr(), errcall=np.geterrcall(), filters=list(warnings.filters), printoptions=np.get_printoptions(),
                    behavior=dict(ak.behavior) if ak is not None else None, registered=vector._awkward_registered)

    o2, o3, o4 = vector.obj(x=1.0, y=2.0), vector.obj(rho=1.0, phi=0.3, eta=0.2), vector.obj(px=1.0, py=2.0, pz=3.0, mass=1.0)
    n4 = vector.array({"x": [1.0, 0.0], "y": [2.0, 0.0], "z": [3.0, 0.0], "t": [10.0, 0.0]})
    calls = [lambda: o2.rotateZ(0.1), lambda: o3.eta, lambda: o4.boostX(0.3), lambda: o2.add(o3), lambda: o4.cross(o4), lambda: n4.unit(), lambda: n4.eta, lambda: n4.gamma,
             lambda: n4.to_rhophietatau(), lambda: vector.obj(x=1, y=2, t=3), lambda: vector.array({"x": [1.0], "foo": [2.0]}), lambda: n4.sum(), lambda: n4 == n4, lambda: n4[0],
             lambda: vector.obj(x=0.0, y=0.0, z=0.0).theta, lambda: vector.obj(x=0.0, y=0.0, z=0.0, t=0.0).gamma, lambda: vector.VectorObject2D(x=True, y=1)]
    if ak is not None:
        a4 = vector.Array([[{"x": 1.0, "y": 2.0, "z": 3.0, "t": 10.0}], []])
        plain = ak.Array([{"x": 1.0, "y": 2.0}], behavior=ak.behavior)
        calls += [lambda: a4.unit(), lambda: a4 + a4, lambda: a4.boost_p4(o4), lambda: a4[0, 0].rotateZ(0.2), lambda: vector.zip({"x": [1.0], "y": [2.0]}), lambda: a4.add(o2),
                  lambda: vector.Array(plain), lambda: vector.Array(ak.Array([{"x": 1.0, "y": 2.0}], behavior=dict(ak.behavior))), lambda: ak.sum(a4, axis=1), lambda: vector.zip({"x": [1.0]})]
    import pickle
    # serialisation / copying of every backend's vectors (returning or raising) leaves no trace either
    subjects = [o2, o4, n4] + ([a4, a4[0, 0], vector.zip({"px": [1.0], "py": [2.0], "pz": [0.5], "M": [1.0]})] if ak is not None else [])
    for sub in subjects:
        calls += [lambda sub=sub: pickle.loads(pickle.dumps(sub)), lambda sub=sub: copy.copy(sub), lambda sub=sub: copy.deepcopy(sub), lambda sub=sub: repr(sub), lambda sub=sub: str(sub)]
        calls += [lambda sub=sub, pr=pr: pickle.loads(pickle.dumps(sub, protocol=pr)) for pr in (2, pickle.HIGHEST_PROTOCOL)]
    if ak is not None:
        calls += [lambda: ak.to_list(a4), lambda: ak.from_buffers(*ak.to_buffers(a4)), lambda: ak.to_numpy(a4[0]), lambda: ak.copy(a4), lambda: ak.concatenate([a4, a4])]
    settings = [dict(all="warn"), dict(all="raise", under="ignore"), dict(divide="ignore", invalid="call")]
    for si, st in enumerate(settings):
        old = np.seterr(**{k: v for k, v in st.items()})
        oldcall = np.seterrcall(lambda *a: None)
        with warnings.catch_warnings():
            warnings.simplefilter("error" if si == 1 else "always")
            before = state()
            for ci, c in enumerate(calls):
                try:
                    c()
                except Exception:
                    pass
                after = state()
                diff = [k for k in before if before[k] != after[k]]
                F.check("C20", f"runtime/global-state-unchanged/setting{si}/call{ci}", not diff, dict(changed=diff))
                if diff:
                    before = after
        np.seterr(**old)
        np.seterrcall(oldcall)
    if ak is not None:
        # only register_awkward modifies the Awkward registry, idempotently (run in this process last)
        b0 = dict(ak.behavior)
        vector.register_awkward()
        b1 = dict(ak.behavior)
        vector.register_awkward()
        b2 = dict(ak.behavior)
        F.check("C20", "runtime/register_awkward-idempotent", b1 == b2 and vector._awkward_registered is True)
        F.check("C20", "runtime/register_awkward-only-adds-vector-entries", all(k in b1 and (k in vector.backends.awkward.behavior or b0.get(k) == b1[k]) for k in b1))


def numpy_class_dtype_probe(F):
    import numpy as np
    from vector.backends import numpy as N
    for name in ("AzimuthalNumpyXY", "AzimuthalNumpyRhoPhi", "LongitudinalNumpyZ", "LongitudinalNumpyTheta", "LongitudinalNumpyEta", "TemporalNumpyT", "TemporalNumpyTau"):
        cls = getattr(N, name)
        before = cls.dtype
        fields = [(n, np.float32) for n in before.names]
        try:
            cls([tuple(1.0 for _ in fields)], dtype=fields)
        except Exception:
            pass
        F.check("C20", f"probe/constructing-{name}-with-dtype-keeps-class-state", cls.dtype == before, dict(before=str(before), after=str(cls.dtype)))
        cls.dtype = before


def main(argv):
    report = C.Report("C20")
    t0 = time.time()
    src = os.path.join(C.REPO, "src", "vector")
    sites, nfun, nfiles = EF.analyse_tree(src)
    F = E.Fails()
    static = [s for s in sites if s["kind"] in GLOBAL_KINDS]
    nallowed = 0
    for s in static:
        if allowed(s):
            nallowed += 1
            F.n += 1
        else:
            F.check("C20", f"static/frame/{s['function']}:{s['text'].split(' = ')[0][:60]}", False, dict(kind=s["kind"], text=s["text"], where=s["where"]))
    table_builders_only_at_import(src, lambda oid, ok, d=None: F.check("C20", oid, ok, d))
    F.n += 1       # the table-builder clause itself
    shared = shared_instance_state(src, sites, lambda oid, ok, d=None: F.check("C20", oid, ok, d))
    F.n += 1       # the shared-instance clause itself
    registration_only_by_the_user(src, lambda oid, ok, d=None: F.check("C20", oid, ok, d))
    F.n += 1       # the registration clause itself
    n_static = F.n
    for n_, bad_ in C.pool_map(_runtime_worker, [0, 1, 2, 3]):
        F.n += n_
        F.bad += bad_
    n_rt = F.n - n_static
    failures = [(oid, d) for p, oid, d in F.bad]
    nk = 0
    seen = set()
    for oid, detail in failures:
        kf = C.match_known("C20", oid, dict(detail=str(detail)))
        if kf:
            nk += 1
            if kf["what"] not in seen:
                report.known_finding(oid, kf["what"])
                seen.add(kf["what"])
        else:
            report.violation(oid, dict(kind="frame-obligation", first=dict(obligation=oid, detail=detail), replay_handler="vv.props.c20:replay"), has_input="static/" not in oid)
    coverage = dict(explanation=f"Engine C: {nfun} functions in {nfiles} files analysed for writes to global state: {len(static)} sites, {nallowed} allow-listed (register_awkward, import-time "
                                f"dispatch-table construction, Numba registration); numpy.errstate occurs only as a `with` context; bounded run-time contract: process-wide state compared around "
                                f"{n_rt} public calls (returning and raising) under 3 prior numpy.seterr / warnings settings, register_awkward idempotent; {len(failures)} undischarged "
                                f"({nk} known findings).  Thread interleavings are NOT explored: determinism under concurrency is a corollary of C16 and these frames, assuming NumPy/Awkward "
                                f"kernels are thread-safe and numpy.errstate is context-local.",
                    obligations=F.n, discharged=F.n - len(failures), functions_analysed=nfun, flagged_sites=len(static), allow_listed=nallowed, known_findings=nk,
                    evaluations=F.n, distinct_nontrivial=nfun, exhaustive=False, checker_cmd=f"./check C20 --tier {C.tier()}",
                    trusted_base=["effect analysis sees every write in Python source of src/vector", "`with numpy.errstate(...)` restores the previous error state on normal and exceptional exit (Python with-statement + NumPy's documented context manager)",
                                  "thread schedules not enumerated"],
                    samples=[dict(site=s["where"], function=s["function"], kind=s["kind"], allowed=allowed(s)) for s in static[:4]])
    C.write_evidence("C20", "other", coverage, ["thread determinism is not explored (no schedule is enumerated): stated as a corollary only", "run-time part is bounded to the listed calls and settings"],
                     time.time() - t0, len(report.violations))
    print(f"C20: functions={nfun} flagged={len(static)} allowed={nallowed} obligations={F.n} failed={len(failures)} known={nk} wall={time.time() - t0:.1f}s")
    return report.exit_code()


def _runtime_worker(i):
    F = E.Fails()
    if i == 0:
        runtime_contract(F)
    elif i == 1:
        numpy_class_dtype_probe(F)
    elif i == 2:
        thread_probe(F, rounds=40 if C.tier() == "quick" else 400)
    else:
        state_independence_probe(F)
    return F.n, F.bad


def replay(prop, rp, path):
    oid = rp["first"]["obligation"]
    print("obligation:", oid, rp["first"]["detail"])
    F = E.Fails()
    if "/static/" in oid:
        src = os.path.join(C.REPO, "src", "vector")
        sites, _, _ = EF.analyse_tree(src)
        still = [s for s in sites if s["kind"] in GLOBAL_KINDS and not allowed(s) and f"C20/static/frame/{s['function']}:{s['text'].split(' = ')[0][:60]}" == oid]
        if still:
            print("still flagged:", still[:2])
            print(f"VIOLATION property={prop} replay={path} no-failing-input-found")
            return 1
        if "/shared-instance-state/" in oid:
            got = []
            shared_instance_state(src, sites, lambda o, ok, d=None: got.append((f"C20/{o}", d)))
            still = [g for g in got if g[0] == oid]
            if still:
                print("still flagged:", still[:2])
                print(f"VIOLATION property={prop} replay={path} no-failing-input-found")
                return 1
        if "/registration-called-by-a-library-function/" in oid:
            got = []
            registration_only_by_the_user(src, lambda o, ok, d=None: got.append((f"C20/{o}", d)))
            still = [g for g in got if g[0] == oid]
            if still:
                print("still flagged:", still[:2])
                print(f"VIOLATION property={prop} replay={path} no-failing-input-found")
                return 1
        print("no longer flagged")
        return 0
    runtime_contract(F)
    numpy_class_dtype_probe(F)
    if "/threads/" in oid:
        thread_probe(F, rounds=400)
    if "/state/" in oid:
        state_independence_probe(F)
    hit = [b for b in F.bad if b[1] == oid]
    if hit:
        print("still failing:", hit[0])
        print(f"VIOLATION property={prop} replay={path}")
        return 1
    print("contract holds on this tree")
    return 0
