"""C19 - NumPy vector arrays behave as arrays of vectors (DESIGN 4/C19).  BOUNDED (run-time contracts).

Run-time contracts on _getitem / __array_finalize__ / __array__ / __reduce__ of the NumPy backend: 20 coordinate systems x 2
flavors x ranks 1..3 x field orders (canonical, reversed, rotated; built from columns, from an explicit dtype, and by .view())
x enumerated index expressions."""
from __future__ import annotations

import copy
import pickle
import random
import time

import numpy as np

from .. import arrays as AR
from .. import common as C
from .. import engined as E

SYN = {"x": ["px"], "y": ["py"], "rho": ["pt"], "z": ["pz"], "t": ["E", "e", "energy"], "tau": ["M", "m", "mass"]}


def shard(args):
    import vector
    system, mom, seed = args
    F = E.Fails()
    names = AR.names_of(system)
    key = (lambda n: AR.MOM.get(n, n)) if mom else (lambda n: n)
    tag0 = f"[{','.join(system)}|{'mom' if mom else 'gen'}"
    rng = random.Random(hash((seed, system, mom)) & 0xFFFFFFF)
    cls_obj = {(2, False): vector.VectorObject2D, (3, False): vector.VectorObject3D, (4, False): vector.VectorObject4D,
               (2, True): vector.MomentumObject2D, (3, True): vector.MomentumObject3D, (4, True): vector.MomentumObject4D}[(len(system) + 1, mom)]
    for shape in ((4,), (2, 3), (2, 2, 2)):
        n_el = int(np.prod(shape))
        elems = [AR.one(system, rng) for _ in range(n_el)]
        orders = [list(names), list(reversed(names)), names[1:] + names[:1]]
        for oi, order in enumerate(orders):
            for how in ("columns", "dtype", "view"):
                tag = f"{tag0}|shape{shape}|order{oi}|{how}]"
                try:
                    if how == "columns":
                        arr = vector.array({key(n): np.array([e[n] for e in elems]).reshape(shape) for n in order})
                    else:
                        dt = np.dtype([(key(n), np.float64) for n in order])
                        raw = np.array([tuple(e[n] for n in order) for e in elems], dtype=dt).reshape(shape)
                        if how == "dtype":
                            arr = vector.array(raw.copy()) if not mom else vector.array({key(n): raw[key(n)].copy() for n in order}) if False else vector.array(raw.tolist() if len(shape) == 1 else raw.copy(), dtype=[(key(n), np.float64) for n in order]) if len(shape) == 1 else None
                            if arr is None:
                                continue
                        else:
                            vcls = {(2, False): vector.VectorNumpy2D, (3, False): vector.VectorNumpy3D, (4, False): vector.VectorNumpy4D,
                                    (2, True): vector.MomentumNumpy2D, (3, True): vector.MomentumNumpy3D, (4, True): vector.MomentumNumpy4D}[(len(system) + 1, mom)]
                            arr = raw.copy().view(vcls)
                except Exception as e:
                    F.check("C19", f"construct/{tag}", False, f"{type(e).__name__}: {str(e)[:150]}")
                    continue
                F.check("C19", f"class-system-flavor/{tag}", AR.sysof(arr) == tuple(system) and isinstance(arr, vector.Momentum) == mom and arr.shape == shape, dict(sys=AR.sysof(arr), shape=arr.shape))
                # ---- integer indexing returns the element as a vector object
                for flat in (0, n_el - 1, n_el // 2):
                    idx = np.unravel_index(flat, shape)
                    idx = idx[0] if len(shape) == 1 else tuple(int(i) for i in idx)
                    try:
                        o = arr[idx]
                        ok = type(o) is cls_obj and AR.sysof(o) == tuple(system) and all(float(getattr(o, n)) == elems[flat][n] for n in names)
                        F.check("C19", f"integer-index/{flat}/{tag}", ok, dict(got=repr(o), expected={n: elems[flat][n] for n in names}))
                    except Exception as e:
                        F.check("C19", f"integer-index/{flat}/{tag}", False, f"{type(e).__name__}: {str(e)[:150]}")
                # ---- slices, masks, reshapes, views keep class / system / flavor / values
                mask = np.zeros(shape, dtype=bool)
                mask.reshape(-1)[::2] = True
                variants = [("slice", lambda a: a[1:]), ("ellipsis-slice", lambda a: a[..., :1]), ("mask", lambda a: a[mask]), ("reshape", lambda a: a.reshape(-1)),
                            ("view", lambda a: a.view()), ("copy", lambda a: a.copy()), ("fancy", lambda a: a[[0, -1]]), ("transpose", lambda a: a.T)]
                def named_columns(b, ref, what):
                    """by-name indexing of a derived array (every spelling) is the derived array's own column: values of its elements, its own memory"""
                    for n in names:
                        exp = np.array([elems[i][n] for i in ref.reshape(-1)]).reshape(ref.shape)
                        for sname in [n] + (SYN.get(n, []) if mom else []):
                            try:
                                col = b[sname]
                                okc = type(col) is np.ndarray and col.shape == exp.shape and np.array_equal(col, exp) and (col.size == 0 or np.shares_memory(col, b))
                                F.check("C19", f"{what}/string-index/{sname}/{tag}", okc, dict(shape=getattr(col, "shape", None), expected_shape=exp.shape, own_memory=bool(col.size == 0 or np.shares_memory(col, b))))
                            except Exception as e:
                                F.check("C19", f"{what}/string-index/{sname}/{tag}", False, f"{type(e).__name__}: {str(e)[:150]}")

                def run_variants(phase):
                    for vn, f in variants:
                        try:
                            b = f(arr)
                            ref = f(np.arange(n_el).reshape(shape))
                            ok = type(b) is type(arr) and AR.sysof(b) == tuple(system) and isinstance(b, vector.Momentum) == mom and b.shape == ref.shape
                            if ok:
                                for n in names:
                                    exp = np.array([elems[i][n] for i in ref.reshape(-1)]).reshape(ref.shape)
                                    ok = ok and np.array_equal(np.asarray(getattr(b, n)), exp)
                            F.check("C19", f"{vn}{phase}/{tag}", ok, dict(type=type(b).__name__, shape=getattr(b, "shape", None)))
                            if ok:
                                named_columns(b, ref, f"{vn}{phase}")
                                if vn == "copy":
                                    F.check("C19", f"copy{phase}/columns-do-not-alias-the-original/{tag}", not any(np.shares_memory(b[n_], arr) for n_ in b.dtype.names), None)
                        except Exception as e:
                            F.check("C19", f"{vn}{phase}/{tag}", False, f"{type(e).__name__}: {str(e)[:150]}")
                run_variants("")
                # ---- a coordinate name (or momentum synonym) returns the stored column (same memory)
                for n in names:
                    spell = [n] + (SYN.get(n, []) if mom else [])
                    for sname in spell:
                        try:
                            col = arr[sname]
                            exp = np.array([e[n] for e in elems]).reshape(shape)
                            F.check("C19", f"string-index/{sname}/{tag}", type(col) is np.ndarray and np.array_equal(col, exp) and np.shares_memory(col, arr), type(col).__name__)
                        except Exception as e:
                            F.check("C19", f"string-index/{sname}/{tag}", False, f"{type(e).__name__}: {str(e)[:150]}")
                # ---- the same derived arrays once the source's columns have been read by name (state left on the instance must not leak into views)
                run_variants("-after-column-access")
                # ---- pickle (every protocol) / copy round trips, for C-ordered, transposed, Fortran-ordered and strided memory layouts
                memory = [("C", arr)]
                if len(shape) > 1:
                    memory += [("transposed", arr.T), ("F-copy", arr.copy(order="F")), ("strided", arr[..., ::2])]
                else:
                    memory += [("strided", arr[::2])]
                rts = [(f"pickle-protocol-{pr}", (lambda a, pr=pr: pickle.loads(pickle.dumps(a, protocol=pr)))) for pr in range(pickle.HIGHEST_PROTOCOL + 1)]
                rts += [("pickle", lambda a: pickle.loads(pickle.dumps(a))), ("copy.copy", copy.copy), ("copy.deepcopy", copy.deepcopy)]
                for mname, a0 in memory:
                    for nm, f in rts:
                        try:
                            b = f(a0)
                            ok = type(b) is type(a0) and b.dtype == a0.dtype and b.shape == a0.shape and AR.sysof(b) == tuple(system) and \
                                np.asarray(b).tolist() == np.asarray(a0).tolist()
                            F.check("C19", f"{nm}-roundtrip/{mname}/{tag}", ok, dict(type=type(b).__name__, dtype=str(b.dtype), shape=b.shape))
                            # ... and the array that was copied / pickled is still the same array of vectors (class, system, element access, a method)
                            try:
                                first = a0[(0,) * a0.ndim] if a0.ndim > 1 else a0[0]
                                oks = AR.sysof(a0) == tuple(system) and isinstance(a0, vector.Momentum) == mom and type(first) is cls_obj and AR.sysof(first) == tuple(system) and \
                                    np.asarray(a0.rho).shape == a0.shape
                            except Exception as e2:
                                oks = False
                            F.check("C19", f"{nm}-roundtrip/{mname}/source-intact/{tag}", oks, None)
                            if ok and b.size:
                                n0 = b.dtype.names[0]
                                F.check("C19", f"{nm}-roundtrip/{mname}/named-column-is-own-memory/{tag}", np.shares_memory(b[n0], b) and not np.shares_memory(b[n0], a0) and np.array_equal(b[n0], a0[n0]), None)
                        except Exception as e:
                            F.check("C19", f"{nm}-roundtrip/{mname}/{tag}", False, f"{type(e).__name__}: {str(e)[:150]}")
    # ---- the array form of a vector object
    e = AR.one(system, rng)
    o = AR.obj_of(system, mom, e)
    try:
        a = np.asanyarray(o)
        ok = isinstance(a, vector.backends.numpy.VectorNumpy) and isinstance(a, vector.Momentum) == mom and AR.sysof(a) == tuple(system) and all(float(getattr(a, n)) == e[n] for n in names)
        F.check("C19", f"asanyarray-of-object{tag0}]", ok, dict(type=type(a).__name__))
        a2 = o.__array__()
        F.check("C19", f"__array__-of-object{tag0}]", isinstance(a2, vector.backends.numpy.VectorNumpy) and isinstance(a2, vector.Momentum) == mom and AR.sysof(a2) == tuple(system), type(a2).__name__)
        p = np.asarray(o)
        okp = type(p) is np.ndarray and p.dtype.names is not None and {(_g(n)) for n in p.dtype.names} == set(names) and all(float(p[n]) == e[_g(n)] for n in p.dtype.names)
        F.check("C19", f"asarray-of-object-is-plain-structured{tag0}]", okp, dict(type=type(p).__name__, names=p.dtype.names))
    except Exception as ex:
        F.check("C19", f"array-form-of-object{tag0}]", False, f"{type(ex).__name__}: {str(ex)[:150]}")
    return F.n, F.bad


def same_values_probe(F):
    """state across calls: the array form of objects that hold the *same numbers* in different coordinate systems / flavors, converted one after
    another in one process, is each time the array of that object's own system (guards against anything keyed on values rather than on types)"""
    import vector
    vals = [1.5, 0.75, 2.25, 9.5]
    for rnd in (0, 1):
        order = list(AR.systems()) if rnd == 0 else list(reversed(list(AR.systems())))
        for system in order:
            names = AR.names_of(system)
            for mom in (False, True):
                o = AR.obj_of(system, mom, dict(zip(names, vals)))
                tag = f"[{','.join(system)}|{'mom' if mom else 'gen'}|round{rnd}]"
                try:
                    a = np.asanyarray(o)
                    ok = isinstance(a, vector.backends.numpy.VectorNumpy) and isinstance(a, vector.Momentum) == mom and AR.sysof(a) == tuple(system) and \
                        all(float(getattr(a, n)) == v for n, v in zip(names, vals))
                    F.check("C19", f"probe/array-form-of-object-after-other-systems-with-equal-values/asanyarray{tag}", ok, dict(system=AR.sysof(a), names=a.dtype.names))
                    p_ = np.asarray(o)
                    okp = p_.dtype.names is not None and [_g(n) for n in p_.dtype.names] == list(names) and all(float(p_[n]) == v for n, v in zip(p_.dtype.names, vals))
                    F.check("C19", f"probe/array-form-of-object-after-other-systems-with-equal-values/asarray{tag}", okp, dict(names=p_.dtype.names))
                except Exception as e:
                    F.check("C19", f"probe/array-form-of-object-after-other-systems-with-equal-values{tag}", False, f"{type(e).__name__}: {str(e)[:150]}")


def _g(n):
    from vector._methods import _repr_momentum_to_generic
    return _repr_momentum_to_generic.get(n, n)


def main(argv):
    report = C.Report("C19")
    t0 = time.time()
    jobs = [(s, m, C.seed()) for s in AR.systems() for m in (False, True)]
    res = C.pool_map(shard, jobs)
    n = sum(r[0] for r in res)
    bad = [(oid, d) for r in res for p, oid, d in r[1]]
    # the dtype-sharing defect found by C16 shows here too (views): probe
    F = E.Fails()
    from .c16 import dtype_probe
    dtype_probe(F)
    F2 = E.Fails()
    same_values_probe(F2)
    n += F2.n
    bad += [(oid, d) for p, oid, d in F2.bad]
    n += F.n
    bad += [(oid.replace("C16/", "C19/"), d) for p, oid, d in F.bad]
    groups = {}
    for oid, detail in bad:
        groups.setdefault(oid.split("[")[0], []).append((oid, detail))
    nk = 0
    for gname, items in sorted(groups.items()):
        oid, detail = items[0]
        kf = C.match_known("C19", oid, dict(detail=str(detail)))
        if kf:
            nk += len(items)
            report.known_finding(oid, kf["what"])
        else:
            report.violation(oid, dict(kind="engineD-runtime-contract", failing_lattice_points=len(items), first=dict(obligation=oid, detail=detail), others=[o for o, _ in items[1:6]],
                                       replay_handler="vv.props.c19:replay"), has_input=True)
    bound = "shapes (4,), (2,3), (2,2,2); field orders canonical / reversed / rotated; built from columns, explicit dtype (1-D) and .view(); integer, slice, ellipsis, mask, fancy, reshape, view, copy, transpose; 20 systems x 2 flavors"
    coverage = dict(evaluations=n, distinct_nontrivial=len(jobs) * 27, rule="one evaluation = one contract (indexing / class preservation / column identity / round trip) at one lattice point",
                    failed=len(bad), known_findings=nk, bound=bound, exhaustive=False,
                    samples=[dict(call="arr[1,0,1] on MomentumNumpy4D stored (E, pz, py, px) order", contract="MomentumObject4D with px, py, pz, E of that element")],
                    explanation=f"BOUNDED run-time contracts on the NumPy backend's indexing, finalisation, array conversion and pickling: {n} evaluations over [{bound}]; {len(bad)} failed ({nk} known findings).")
    C.write_evidence("C19", "other", coverage, ["bounded: only the enumerated shapes, field orders and index expressions", "NumPy's own view/pickle machinery is trusted"], time.time() - t0, len(report.violations))
    print(f"C19: contract_evaluations={n} failed={len(bad)} known={nk} wall={time.time() - t0:.1f}s")
    return report.exit_code()


def replay(prop, rp, path):
    import re
    oid = rp["first"]["obligation"]
    m = re.search(r"\[([a-z,]+)\|(mom|gen)", oid)
    if "/probe/array-form-of-object" in oid:
        F = E.Fails()
        same_values_probe(F)
        hit = [b for b in F.bad if b[1] == oid]
    elif not m:
        F = E.Fails()
        from .c16 import dtype_probe
        dtype_probe(F)
        hit = [b for b in F.bad if b[1].replace("C16/", "C19/") == oid]
    else:
        n, bad = shard((tuple(m.group(1).split(",")), m.group(2) == "mom", rp.get("seed", 0)))
        hit = [b for b in bad if b[1] == oid]
    for b in hit[:2]:
        print("still failing:", b)
    if hit:
        print(f"VIOLATION property={prop} replay={path}")
        return 1
    print("contract holds on this tree")
    return 0
