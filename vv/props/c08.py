"""C08 - SymPy expressions agree with the numeric backends (DESIGN 4/C08).

Both backends execute the *same* compute functions and differ only in `lib`.  Hence:
 (a) contract table for vector._lib.SympyLib: every same-named function is the SymPy function with the same denotation; the
     deliberately modified ones (nan_to_num, maximum, minimum, copysign, isclose, sign) have the documented replacement;
 (b) Engine A: for every occurrence of a modified function in every variant of every module, on the documented regular domain
     (timelike, forward-pointing, off-axis operands), the numeric operation coincides with SympyLib's replacement;
 (c) glue: the methods of the SymPy backend return the live table entry applied to the stored symbols (expression identity),
     and a bounded numeric replay (.subs at regular points vs the object backend)."""
from __future__ import annotations

import random
import time

from .. import common as C
from .. import enginea, ops
from .. import symreal as S
from .. import prover as PR
from ..views import TemporalT, TemporalTau, groups, sig_str, mk_operand, mk_scalar, view
from . import enginea_prop


class ShadowJob(enginea.VariantJob):
    def run(self):
        res = dict(id=self.base_id, pk=self.pk, mod=self.modname, sig=sig_str(self.sig), obligations=[], status=None, t=0.0, cases=0, refuter_points=0, engine_crosschecks=0)
        t0 = time.time()
        worst = "proved"
        try:
            for cname, kinds in ops.scalar_cases(self.pk, self.modname, self.snames, "C08"):
                if cname == "gamma<=-1":
                    continue        # the direction of a gamma-boost is carried by copysign(., gamma): a sign convention the statement excludes
                res["cases"] += 1
                ctx, scal, sargs, coords, views = self.setup_case(cname, kinds, tuple("pos" for v in self.vs if len(v) >= 3))
                # the documented regular domain: off-axis, forward, timelike
                for v, w in zip(self.vs, views):
                    ctx.hyp((w[0] * w[0] + w[1] * w[1]).rel(">"), pre=True)
                    if len(v) >= 3:
                        ctx.hyp(S.A.of(w[3]).rel(">"), pre=True)
                        ctx.hyp((w[3] * w[3] - (w[0] * w[0] + w[1] * w[1] + w[2] * w[2])).rel(">"), pre=True)
                if self.returns not in ([float], [bool]) and self.returns[-1] is TemporalTau and len([r for r in self.returns if r is not None]) == 3:
                    # a tau-stored *result* is regular when it is itself forward and timelike (the sign convention of tau is not needed)
                    ref = self.cfn(S.LIB, *sargs, *[c for vw in views for c in vw])
                    rc = [r for r in self.creturns if r is not None]
                    rv = view(rc, list(ref))
                    ctx.hyp(S.A.of(rv[3]).rel(">"), pre=True)
                    ctx.hyp((rv[3] * rv[3] - (rv[0] * rv[0] + rv[1] * rv[1] + rv[2] * rv[2])).rel(">"), pre=True)
                    ctx.defs.clear()
                if self.modname == "deltaangle":
                    # instance of the Cauchy-Schwarz lemma (proved below on plain variables in every run: cauchy_schwarz_lemma)
                    a, b = views
                    dot = a[0] * b[0] + a[1] * b[1] + a[2] * b[2]
                    na = S.LIB.sqrt(a[0] * a[0] + a[1] * a[1] + a[2] * a[2])
                    nb = S.LIB.sqrt(b[0] * b[0] + b[1] * b[1] + b[2] * b[2])
                    ctx.hyp(dot.rel("<=", na * nb))
                    ctx.hyp(dot.rel(">=", -(na * nb)))
                    # instances of the (C01) contract of spatial.mag: the variant's own magnitude is the magnitude of the view
                    import vector._compute.spatial.mag as MAG
                    for vcls, cs, nrm in zip(self.vs, coords, (na, nb)):
                        own = MAG.dispatch_map[tuple(vcls)][0]
                        own = getattr(own, "__wrapped_original__", own)
                        ov = S.A.of(own(S.LIB, *cs))
                        ctx.hyp(ov.rel("==", nrm))
                        if ov.d.is_one() and ov.n.nterms() == 1 and nrm.d.is_one() and ov.key() != nrm.key():
                            (mono, coef), = ov.n.t.items()
                            if coef == 1 and len(mono) >= 2:
                                ctx.add_rule(mono, nrm.n)        # use the equality as a rewrite rule as well (normal forms collapse)
                    ctx.defs.clear()
                    ctx.notes.append("lemma instance: Cauchy-Schwarz (norm form)")
                try:
                    self.fn(S.SHADOWLIB, *sargs, *[c for cs in coords for c in cs])
                except S.OutOfSubset as e:
                    res["obligations"].append(dict(id=self.base_id + "/subset", kind="subset", status="unknown", by="engine", t=0, note=str(e)))
                    worst = enginea._worse(worst, "unknown")
                    continue
                suffix = f"{{{cname}}}" if cname else ""
                seen = set()
                for what, f in getattr(ctx, "c08", []):
                    k = repr(f)
                    if k in seen or f == S.TRUE:
                        continue
                    seen.add(k)
                    r = PR.prove(ctx, f, timeout_ms=6000)
                    st = r["status"]
                    o = dict(id=f"{self.base_id}{suffix}/replacement.{len(seen)}", kind="value", status=st, by=r["by"], t=round(r["t"], 4), note=what)
                    if st == "refuted":
                        cx = self.model_inputs(ctx, r.get("model"))
                        o["counterexample"] = cx
                        if cx is None:
                            o["status"] = "unknown"
                    res["obligations"].append(o)
                    worst = enginea._worse(worst, o["status"])
                if not seen:
                    res["obligations"].append(dict(id=f"{self.base_id}{suffix}/no-modified-function", kind="value", status="proved", by="normal-form", t=0))
        except Exception as e:
            res["status"] = "error"
            res["err"] = f"{type(e).__name__}: {e}"
            return res
        res["status"] = worst
        res["t"] = round(time.time() - t0, 3)
        return res

    def setup_case(self, case_name, kinds, tau_cases):
        # tau-stored operands: tau > 0 (timelike); no sign split
        ctx = S.newctx()
        ctx.abstract_views = self.modname in ("deltaangle",)
        scal, sargs = {}, []
        for n in self.snames:
            k = kinds[n]
            v = k[1] if isinstance(k, tuple) else mk_scalar(n, "angle" if k == "angle" else k)
            scal[n] = v
            sargs.append(v)
        coords = [mk_operand(str(i + 1), v, tau_case="pos", offaxis=True) for i, v in enumerate(self.vs)]
        views = [view(v, c) for v, c in zip(self.vs, coords)]
        for f in ops.op_requires(self.pk, self.modname, case_name, scal, views, "C08"):
            ctx.hyp(f, pre=True)
        return ctx, scal, sargs, coords, views


def cauchy_schwarz_lemma():
    """(a.b)^2 <= |a|^2 |b|^2 for all real a, b in R^3 - discharged by z3 on plain variables; instantiated in the deltaangle jobs"""
    ctx = S.newctx()
    a = [mk_scalar(n) for n in ("a1", "a2", "a3")]
    b = [mk_scalar(n) for n in ("b1", "b2", "b3")]
    dot = a[0] * b[0] + a[1] * b[1] + a[2] * b[2]
    na = S.LIB.sqrt(a[0] * a[0] + a[1] * a[1] + a[2] * a[2])
    nb = S.LIB.sqrt(b[0] * b[0] + b[1] * b[1] + b[2] * b[2])
    goal = S.f_and(dot.rel("<=", na * nb), dot.rel(">=", -(na * nb)))
    r = PR.prove(ctx, goal, timeout_ms=20000)
    return dict(id="C08/lemma/cauchy-schwarz", pk="lemma", mod="cauchy-schwarz", sig="", status=r["status"], t=r["t"], cases=1, refuter_points=0, engine_crosschecks=0,
                obligations=[dict(id="C08/lemma/cauchy-schwarz", kind="value", status=r["status"] if r["status"] != "refuted" else "unknown", by=r["by"], t=round(r["t"], 4))])


def shadow_worker(args):
    pk, n, sig = args
    from .. import modular
    modular.ensure_installed()          # callees are replaced by their contracts; every callee variant is itself a job of this check
    modular.NO_KERNEL_STUB = True
    try:
        return ShadowJob(pk, n, sig, "C08").run()
    except Exception as e:
        import traceback
        return dict(id=f"C08/{pk}.{n}[{sig_str(sig)}]", pk=pk, mod=n, sig=sig_str(sig), status="error", obligations=[], err=f"{type(e).__name__}: {e}", tb=traceback.format_exc()[-800:], t=0)


def lib_table(F):
    """contract table of SympyLib (25 one-line methods)"""
    import sympy
    from vector._lib import SympyLib
    L = SympyLib()
    a, b = sympy.symbols("a b", real=True)
    same = dict(sqrt=sympy.sqrt, exp=sympy.exp, log=sympy.log, sin=sympy.sin, cos=sympy.cos, tan=sympy.tan, sinh=sympy.sinh, cosh=sympy.cosh, tanh=sympy.tanh,
                arcsin=sympy.asin, arccos=sympy.acos, arctan=sympy.atan, arcsinh=sympy.asinh, arccosh=sympy.acosh, arctanh=sympy.atanh, absolute=sympy.Abs)
    for name, fn in same.items():
        F.check("C08", f"sympylib/{name}-has-the-same-denotation", getattr(L, name)(a) == fn(a), str(getattr(L, name)(a)))
    F.check("C08", "sympylib/arctan2", L.arctan2(a, b) == sympy.atan2(a, b))
    F.check("C08", "sympylib/pi-inf", L.pi == sympy.pi and L.inf == sympy.oo)
    F.check("C08", "sympylib/nan_to_num-is-identity", L.nan_to_num(a, nan=0.0, posinf=1.0) is a)
    F.check("C08", "sympylib/maximum-returns-symbolic-argument", L.maximum(a, 0) is a and L.maximum(0, a) is a and L.maximum(a, b) is a)
    F.check("C08", "sympylib/minimum-returns-symbolic-argument", L.minimum(a, 1) is a and L.minimum(1, a) is a and L.minimum(a, b) is a)
    F.check("C08", "sympylib/copysign-returns-first-argument", L.copysign(a, b) is a)
    F.check("C08", "sympylib/isclose-is-Eq", L.isclose(a, b, 1e-5, 1e-8, False) == sympy.Eq(a, b))
    F.check("C08", "sympylib/sign-is-numeric", L.sign(-2.0) == -1 and L.sign(3) == 1)
    members = sorted(n for n in dir(SympyLib) if not n.startswith("_"))
    covered = set(same) | {"arctan2", "pi", "inf", "nan_to_num", "maximum", "minimum", "copysign", "isclose", "sign"}
    F.check("C08", "sympylib/every-member-has-a-contract", set(members) <= covered, sorted(set(members) - covered))


def glue_and_replay(F, seed):
    """SymPy-backend methods == live table entry applied to the stored symbols; bounded numeric replay against the object backend"""
    import importlib
    import numpy
    import sympy
    import vector
    from vector._lib import SympyLib
    from .. import arrays as AR
    from ..objsym import PKDIM
    lib = SympyLib()
    rng = random.Random(seed)
    props = {2: ["x", "y", "rho", "rho2", "phi"], 3: ["z", "theta", "eta", "costheta", "cottheta", "mag", "mag2"], 4: ["t", "t2", "tau", "tau2", "beta", "gamma", "rapidity"]}
    pkof = {2: "planar", 3: "spatial", 4: "lorentz"}
    for s in AR.systems():
        d = len(s) + 1
        names = AR.names_of(s)
        for mom in (False, True):
            syms = {n: sympy.Symbol(n, real=True) for n in names}
            cls = {(2, False): vector.VectorSympy2D, (3, False): vector.VectorSympy3D, (4, False): vector.VectorSympy4D,
                   (2, True): vector.MomentumSympy2D, (3, True): vector.MomentumSympy3D, (4, True): vector.MomentumSympy4D}[(d, mom)]
            tag = f"[{','.join(s)}|{'mom' if mom else 'gen'}]"
            try:
                v = cls(**{(AR.MOM.get(n, n) if mom else n): syms[n] for n in names})
            except Exception as e:
                F.check("C08", f"sympy-construct{tag}", False, f"{type(e).__name__}: {e}")
                continue
            F.check("C08", f"sympy-construct-stores-symbols-in-named-system{tag}", AR.sysof(v) == tuple(s) and [getattr(v, n) for n in names] == [syms[n] for n in names], str(v))
            vals = AR.one(s, rng)
            o = AR.obj_of(s, mom, vals)
            sub = {syms[n]: vals[n] for n in names}
            for k in range(2, d + 1):
                for p in props[k]:
                    try:
                        from vector._methods import _aztype, _ltype, _ttype
                        key = tuple([_aztype(v)] + ([_ltype(v)] if k >= 3 else []) + ([_ttype(v)] if k == 4 else []))
                        m = importlib.import_module(f"vector._compute.{pkof[k]}.{p}")
                        fn = m.dispatch_map[key][0]
                        exp = fn(lib, *[syms[n] for n in names[: {2: 2, 3: 3, 4: 4}[k]]])
                        got = getattr(v, p)
                        F.check("C08", f"glue/{p}{tag}", got == exp or sympy.simplify(got - exp) == 0, dict(got=str(got)[:120], expected=str(exp)[:120]))
                        with numpy.errstate(all="ignore"):
                            num = float(getattr(o, p))
                        val = complex(sympy.N(got.subs(sub), 30)) if hasattr(got, "subs") else complex(got)
                        F.check("C08", f"replay/{p}{tag}", abs(val.imag) < 1e-9 and AR.close(val.real, num, 1e-9, 1e-10), dict(symbolic=str(val), numeric=num, at={str(k_): v_ for k_, v_ in sub.items()}))
                    except Exception as e:
                        F.check("C08", f"glue/{p}{tag}", False, f"{type(e).__name__}: {str(e)[:150]}")
            # a few methods with parameters and a second operand
            try:
                ang = sympy.Symbol("alpha", real=True)
                r = v.rotateZ(ang)
                ro = o.rotateZ(0.37)
                for n in ("x", "y"):
                    val = complex(sympy.N(getattr(r, n).subs(sub).subs({ang: 0.37}), 30))
                    F.check("C08", f"replay/rotateZ.{n}{tag}", AR.close(val.real, float(getattr(ro, n)), 1e-9, 1e-10))
                w = cls(**{(AR.MOM.get(n, n) if mom else n): sympy.Symbol(n + "_2", real=True) for n in names})
                vals2 = AR.one(s, rng)
                sub2 = dict(sub)
                sub2.update({sympy.Symbol(n + "_2", real=True): vals2[n] for n in names})
                o2 = AR.obj_of(s, mom, vals2)
                dd, do = v.dot(w), o.dot(o2)
                F.check("C08", f"replay/dot{tag}", AR.close(complex(sympy.N(dd.subs(sub2), 30)).real, float(do), 1e-9, 1e-10))
                sm, so = v.add(w), o.add(o2)
                for n in ("x", "y"):
                    F.check("C08", f"replay/add.{n}{tag}", AR.close(complex(sympy.N(getattr(sm, n).subs(sub2), 30)).real, float(getattr(so, n)), 1e-9, 1e-10))
                if d == 4:
                    b = sympy.Symbol("beta", real=True)
                    bz, bo = v.boostZ(beta=b), o.boostZ(beta=0.3)
                    for n in ("z", "t"):
                        F.check("C08", f"replay/boostZ.{n}{tag}", AR.close(complex(sympy.N(getattr(bz, n).subs(sub).subs({b: 0.3}), 30)).real, float(getattr(bo, n)), 1e-9, 1e-10))
            except Exception as e:
                F.check("C08", f"replay/methods{tag}", False, f"{type(e).__name__}: {str(e)[:160]}")


def _glue_worker(seed):
    from .. import engined as E
    F = E.Fails()
    lib_table(F)
    glue_and_replay(F, seed)
    return F.n, F.bad


def main(argv):
    t_start = time.time()
    jobs = [(pk, n, sig) for pk, n, m in ops.all_modules() if n != "isclose" for sig in m.dispatch_map]
    res = C.pool_map(shadow_worker, jobs)
    # the contract of spatial.mag instantiated in the deltaangle jobs is re-discharged here (self-contained check)
    res += C.pool_map(enginea.run_variant_job, [("spatial", "mag", sig, "C08") for pk, n, m in ops.all_modules() if (pk, n) == ("spatial", "mag") for sig in m.dispatch_map])
    n_, bad_ = C.pool_map(_glue_worker, [C.seed(), C.seed() + 1])[0]
    extra = dict(id="C08/sympy-backend", pk="sympy", mod="backend", sig="", status="proved" if not bad_ else "refuted", t=0, cases=1, refuter_points=0, engine_crosschecks=0, obligations=[])
    failed = {oid for p, oid, d in bad_}
    for p, oid, d in bad_:
        extra["obligations"].append(dict(id=oid, kind="value", status="refuted", by="expression identity / numeric replay on the real SymPy backend", t=0, counterexample=dict(detail=d)))
    extra["obligations"].append(dict(id="C08/sympy-backend/contracts-evaluated", kind="value", status="proved", by=f"{n_ - len(bad_)} table / glue / replay contracts on the real SymPy backend", t=0))
    return enginea_prop.run("C08", [], "DESIGN 4/C08", extra_results=res + [extra, cauchy_schwarz_lemma()], t_start=t_start,
                            extra_assumptions=["SymPy's own elementary functions denote the same real functions as NumPy's (trusted)",
                                               "regular domain of the statement: every operand off the z axis, forward (t > 0) and timelike; tau-stored operands have tau > 0",
                                               "isclose becomes Eq in the symbolic backend and ignores tolerances: the three isclose modules are outside the 'same number' clause for positive tolerances",
                                               "SympyLib.sign only accepts numbers: scale factors are configuration values in the symbolic backend"],
                            functions_note="For every variant of every module (except isclose): each occurrence of maximum / minimum / copysign acts, on the regular domain, as the replacement "
                                           "SympyLib documents; contract table of SympyLib; SymPy-backend getters equal the live table entries on the stored symbols; bounded numeric replay.")
