"""C08 - SymPy expressions agree with the numeric backends (DESIGN 4/C08).

Both backends execute the *same* compute functions and differ only in `lib`.  Hence:
 (a) contract table for vector._lib.SympyLib: every same-named function is the SymPy function with the same denotation; the
     deliberately modified ones (nan_to_num, maximum, minimum, copysign, isclose, sign) have the documented replacement;
 (b) Engine A: for every occurrence of a modified function in every variant of every module, on the documented regular domain
     (timelike, forward-pointing, off-axis operands), the numeric operation coincides with SympyLib's replacement;
 (c) glue: the methods of the SymPy backend return the live table entry applied to the stored symbols (expression identity),
     and a bounded numeric replay (.subs at regular points vs the object backend)."""
from __future__ import annotations

import random

import numpy
import time

from .. import common as C
from .. import enginea, ops
from .. import symreal as S
from .. import prover as PR
from ..views import TemporalT, TemporalTau, groups, sig_str, mk_operand, mk_scalar, view
from . import enginea_prop


class ShadowJob(enginea.VariantJob):
    def run(self):
        res = dict(id=self.base_id, pk=self.pk, mod=self.modname, sig=sig_str(self.sig), obligations=[], status=None, t=0.0, cases=0, refuter_points=0, engine_crosschecks=0)
        t0 = time.time()
        worst = "proved"
        try:
            for cname, kinds in ops.scalar_cases(self.pk, self.modname, self.snames, "C08"):
                if cname == "gamma<=-1":
                    continue        # the direction of a gamma-boost is carried by copysign(., gamma): a sign convention the statement excludes
                res["cases"] += 1
                ctx, scal, sargs, coords, views = self.setup_case(cname, kinds, tuple("pos" for v in self.vs if len(v) >= 3))
                # the documented regular domain: off-axis, forward, timelike
                for v, w in zip(self.vs, views):
                    ctx.hyp((w[0] * w[0] + w[1] * w[1]).rel(">"), pre=True)
                    if len(v) >= 3:
                        ctx.hyp(S.A.of(w[3]).rel(">"), pre=True)
                        ctx.hyp((w[3] * w[3] - (w[0] * w[0] + w[1] * w[1] + w[2] * w[2])).rel(">"), pre=True)
                if self.returns not in ([float], [bool]) and self.returns[-1] is TemporalTau and len([r for r in self.returns if r is not None]) == 3:
                    # a tau-stored *result* is regular when it is itself forward and timelike (the sign convention of tau is not needed)
                    ref = self.cfn(S.LIB, *sargs, *[c for vw in views for c in vw])
                    rc = [r for r in self.creturns if r is not None]
                    rv = view(rc, list(ref))
                    ctx.hyp(S.A.of(rv[3]).rel(">"), pre=True)
                    ctx.hyp((rv[3] * rv[3] - (rv[0] * rv[0] + rv[1] * rv[1] + rv[2] * rv[2])).rel(">"), pre=True)
                    ctx.defs.clear()
                if self.modname == "deltaangle":
                    # instance of the Cauchy-Schwarz lemma (proved below on plain variables in every run: cauchy_schwarz_lemma)
                    a, b = views
                    dot = a[0] * b[0] + a[1] * b[1] + a[2] * b[2]
                    na = S.LIB.sqrt(a[0] * a[0] + a[1] * a[1] + a[2] * a[2])
                    nb = S.LIB.sqrt(b[0] * b[0] + b[1] * b[1] + b[2] * b[2])
                    ctx.hyp(dot.rel("<=", na * nb))
                    ctx.hyp(dot.rel(">=", -(na * nb)))
                    # instances of the (C01) contract of spatial.mag: the variant's own magnitude is the magnitude of the view
                    import vector._compute.spatial.mag as MAG
                    for vcls, cs, nrm in zip(self.vs, coords, (na, nb)):
                        own = MAG.dispatch_map[tuple(vcls)][0]
                        own = getattr(own, "__wrapped_original__", own)
                        ov = S.A.of(own(S.LIB, *cs))
                        ctx.hyp(ov.rel("==", nrm))
                        if ov.d.is_one() and ov.n.nterms() == 1 and nrm.d.is_one() and ov.key() != nrm.key():
                            (mono, coef), = ov.n.t.items()
                            if coef == 1 and len(mono) >= 2:
                                ctx.add_rule(mono, nrm.n)        # use the equality as a rewrite rule as well (normal forms collapse)
                    ctx.defs.clear()
                    ctx.notes.append("lemma instance: Cauchy-Schwarz (norm form)")
                try:
                    self.fn(S.SHADOWLIB, *sargs, *[c for cs in coords for c in cs])
                except S.OutOfSubset as e:
                    res["obligations"].append(dict(id=self.base_id + "/subset", kind="subset", status="unknown", by="engine", t=0, note=str(e)))
                    worst = enginea._worse(worst, "unknown")
                    continue
                suffix = f"{{{cname}}}" if cname else ""
                seen = set()
                for what, f in getattr(ctx, "c08", []):
                    k = repr(f)
                    if k in seen or f == S.TRUE:
                        continue
                    seen.add(k)
                    r = PR.prove(ctx, f, timeout_ms=6000)
                    st = r["status"]
                    o = dict(id=f"{self.base_id}{suffix}/replacement.{len(seen)}", kind="value", status=st, by=r["by"], t=round(r["t"], 4), note=what)
                    if st == "refuted":
                        cx = self.model_inputs(ctx, r.get("model"))
                        o["counterexample"] = cx
                        if cx is None:
                            o["status"] = "unknown"
                    res["obligations"].append(o)
                    worst = enginea._worse(worst, o["status"])
                if not seen:
                    res["obligations"].append(dict(id=f"{self.base_id}{suffix}/no-modified-function", kind="value", status="proved", by="normal-form", t=0))
        except Exception as e:
            res["status"] = "error"
            res["err"] = f"{type(e).__name__}: {e}"
            return res
        res["status"] = worst
        res["t"] = round(time.time() - t0, 3)
        return res

    def setup_case(self, case_name, kinds, tau_cases):
        # tau-stored operands: tau > 0 (timelike); no sign split
        ctx = S.newctx()
        ctx.abstract_views = self.modname in ("deltaangle",)
        scal, sargs = {}, []
        for n in self.snames:
            k = kinds[n]
            v = k[1] if isinstance(k, tuple) else mk_scalar(n, "angle" if k == "angle" else k)
            scal[n] = v
            sargs.append(v)
        coords = [mk_operand(str(i + 1), v, tau_case="pos", offaxis=True) for i, v in enumerate(self.vs)]
        views = [view(v, c) for v, c in zip(self.vs, coords)]
        for f in ops.op_requires(self.pk, self.modname, case_name, scal, views, "C08"):
            ctx.hyp(f, pre=True)
        return ctx, scal, sargs, coords, views


def cauchy_schwarz_lemma():
    """(a.b)^2 <= |a|^2 |b|^2 for all real a, b in R^3 - discharged by z3 on plain variables; instantiated in the deltaangle jobs"""
    ctx = S.newctx()
    a = [mk_scalar(n) for n in ("a1", "a2", "a3")]
    b = [mk_scalar(n) for n in ("b1", "b2", "b3")]
    dot = a[0] * b[0] + a[1] * b[1] + a[2] * b[2]
    na = S.LIB.sqrt(a[0] * a[0] + a[1] * a[1] + a[2] * a[2])
    nb = S.LIB.sqrt(b[0] * b[0] + b[1] * b[1] + b[2] * b[2])
    goal = S.f_and(dot.rel("<=", na * nb), dot.rel(">=", -(na * nb)))
    r = PR.prove(ctx, goal, timeout_ms=20000)
    return dict(id="C08/lemma/cauchy-schwarz", pk="lemma", mod="cauchy-schwarz", sig="", status=r["status"], t=r["t"], cases=1, refuter_points=0, engine_crosschecks=0,
                obligations=[dict(id="C08/lemma/cauchy-schwarz", kind="value", status=r["status"] if r["status"] != "refuted" else "unknown", by=r["by"], t=round(r["t"], 4))])


def shadow_worker(args):
    pk, n, sig = args
    from .. import modular
    modular.ensure_installed()          # callees are replaced by their contracts; every callee variant is itself a job of this check
    modular.NO_KERNEL_STUB = True
    try:
        return ShadowJob(pk, n, sig, "C08").run()
    except Exception as e:
        import traceback
        return dict(id=f"C08/{pk}.{n}[{sig_str(sig)}]", pk=pk, mod=n, sig=sig_str(sig), status="error", obligations=[], err=f"{type(e).__name__}: {e}", tb=traceback.format_exc()[-800:], t=0)


def lib_table(F):
    """contract table of SympyLib (25 one-line methods)"""
    import sympy
    from vector._lib import SympyLib
    L = SympyLib()
    a, b = sympy.symbols("a b", real=True)
    same = dict(sqrt=sympy.sqrt, exp=sympy.exp, log=sympy.log, sin=sympy.sin, cos=sympy.cos, tan=sympy.tan, sinh=sympy.sinh, cosh=sympy.cosh, tanh=sympy.tanh,
                arcsin=sympy.asin, arccos=sympy.acos, arctan=sympy.atan, arcsinh=sympy.asinh, arccosh=sympy.acosh, arctanh=sympy.atanh, absolute=sympy.Abs)
    for name, fn in same.items():
        F.check("C08", f"sympylib/{name}-has-the-same-denotation", getattr(L, name)(a) == fn(a), str(getattr(L, name)(a)))
    F.check("C08", "sympylib/arctan2", L.arctan2(a, b) == sympy.atan2(a, b))
    F.check("C08", "sympylib/pi-inf", L.pi == sympy.pi and L.inf == sympy.oo)
    F.check("C08", "sympylib/nan_to_num-is-identity", L.nan_to_num(a, nan=0.0, posinf=1.0) is a)
    F.check("C08", "sympylib/maximum-returns-symbolic-argument", L.maximum(a, 0) is a and L.maximum(0, a) is a and L.maximum(a, b) is a)
    F.check("C08", "sympylib/minimum-returns-symbolic-argument", L.minimum(a, 1) is a and L.minimum(1, a) is a and L.minimum(a, b) is a)
    # ... also when the operand has collapsed to a number (numeric SymPy coordinates, or operands related by construction): inside the bound the clamp is
    # inactive in the numeric backends, so the replacement must hand the number back, whichever argument position it is in
    for val in (sympy.Float(0.5), sympy.Float(-0.5), sympy.Rational(1, 3), sympy.Rational(-2, 3), sympy.Integer(0), sympy.Float(0.999999), sympy.Float(-0.999999), sympy.sqrt(2) / 2):
        F.check("C08", f"sympylib/minimum(1, {val})-inactive-clamp-returns-the-number", L.minimum(1, val) == val and L.minimum(val, 1) == val, dict(got=(str(L.minimum(1, val)), str(L.minimum(val, 1)))))
        F.check("C08", f"sympylib/maximum(-1, {val})-inactive-clamp-returns-the-number", L.maximum(-1, val) == val and L.maximum(val, -1) == val, dict(got=(str(L.maximum(-1, val)), str(L.maximum(val, -1)))))
        if val >= 0:
            F.check("C08", f"sympylib/maximum({val}, 0)-inactive-clamp-returns-the-number", L.maximum(val, 0) == val and L.maximum(0, val) == val, dict(got=str(L.maximum(val, 0))))
    F.check("C08", "sympylib/copysign-returns-first-argument", L.copysign(a, b) is a)
    F.check("C08", "sympylib/isclose-is-Eq", L.isclose(a, b, 1e-5, 1e-8, False) == sympy.Eq(a, b))
    F.check("C08", "sympylib/sign-is-numeric", L.sign(-2.0) == -1 and L.sign(3) == 1)
    import math
    for val in (0.5, -0.5, 0.25, -0.25, 1e-9, -1e-9, 1e-300, -1e-300, 1, -1, 2.5, -2.5, 1e300, -1e300, 0, 0.0, numpy.float64(0.75), numpy.float32(-0.125), numpy.int64(-3)):
        exp = 0 if val == 0 else int(math.copysign(1, val))
        F.check("C08", f"sympylib/sign({val!r})-is-the-sign-of-the-number", L.sign(val) == exp, dict(got=repr(L.sign(val)), expected=exp))
    members = sorted(n for n in dir(SympyLib) if not n.startswith("_"))
    covered = set(same) | {"arctan2", "pi", "inf", "nan_to_num", "maximum", "minimum", "copysign", "isclose", "sign"}
    F.check("C08", "sympylib/every-member-has-a-contract", set(members) <= covered, sorted(set(members) - covered))


def glue_and_replay(F, seed):
    """SymPy-backend methods == live table entry applied to the stored symbols; bounded numeric replay against the object backend"""
    import importlib
    import numpy
    import sympy
    import vector
    from vector._lib import SympyLib
    from .. import arrays as AR
    from ..objsym import PKDIM
    lib = SympyLib()
    rng = random.Random(seed)
    props = {2: ["x", "y", "rho", "rho2", "phi"], 3: ["z", "theta", "eta", "costheta", "cottheta", "mag", "mag2"], 4: ["t", "t2", "tau", "tau2", "beta", "gamma", "rapidity"]}
    pkof = {2: "planar", 3: "spatial", 4: "lorentz"}
    for s in AR.systems():
        d = len(s) + 1
        names = AR.names_of(s)
        for mom in (False, True):
            syms = {n: sympy.Symbol(n, real=True) for n in names}
            cls = {(2, False): vector.VectorSympy2D, (3, False): vector.VectorSympy3D, (4, False): vector.VectorSympy4D,
                   (2, True): vector.MomentumSympy2D, (3, True): vector.MomentumSympy3D, (4, True): vector.MomentumSympy4D}[(d, mom)]
            tag = f"[{','.join(s)}|{'mom' if mom else 'gen'}]"
            try:
                v = cls(**{(AR.MOM.get(n, n) if mom else n): syms[n] for n in names})
            except Exception as e:
                F.check("C08", f"sympy-construct{tag}", False, f"{type(e).__name__}: {e}")
                continue
            F.check("C08", f"sympy-construct-stores-symbols-in-named-system{tag}", AR.sysof(v) == tuple(s) and [getattr(v, n) for n in names] == [syms[n] for n in names], str(v))
            vals = AR.one(s, rng)
            o = AR.obj_of(s, mom, vals)
            sub = {syms[n]: vals[n] for n in names}
            for k in range(2, d + 1):
                for p in props[k]:
                    try:
                        from vector._methods import _aztype, _ltype, _ttype
                        key = tuple([_aztype(v)] + ([_ltype(v)] if k >= 3 else []) + ([_ttype(v)] if k == 4 else []))
                        m = importlib.import_module(f"vector._compute.{pkof[k]}.{p}")
                        fn = m.dispatch_map[key][0]
                        exp = fn(lib, *[syms[n] for n in names[: {2: 2, 3: 3, 4: 4}[k]]])
                        got = getattr(v, p)
                        F.check("C08", f"glue/{p}{tag}", got == exp or sympy.simplify(got - exp) == 0, dict(got=str(got)[:120], expected=str(exp)[:120]))
                        with numpy.errstate(all="ignore"):
                            num = float(getattr(o, p))
                        val = complex(sympy.N(got.subs(sub), 30)) if hasattr(got, "subs") else complex(got)
                        F.check("C08", f"replay/{p}{tag}", abs(val.imag) < 1e-9 and AR.close(val.real, num, 1e-9, 1e-10), dict(symbolic=str(val), numeric=num, at={str(k_): v_ for k_, v_ in sub.items()}))
                    except Exception as e:
                        F.check("C08", f"glue/{p}{tag}", False, f"{type(e).__name__}: {str(e)[:150]}")
            # a few methods with parameters and a second operand
            try:
                ang = sympy.Symbol("alpha", real=True)
                r = v.rotateZ(ang)
                ro = o.rotateZ(0.37)
                for n in ("x", "y"):
                    val = complex(sympy.N(getattr(r, n).subs(sub).subs({ang: 0.37}), 30))
                    F.check("C08", f"replay/rotateZ.{n}{tag}", AR.close(val.real, float(getattr(ro, n)), 1e-9, 1e-10))
                w = cls(**{(AR.MOM.get(n, n) if mom else n): sympy.Symbol(n + "_2", real=True) for n in names})
                vals2 = AR.one(s, rng)
                sub2 = dict(sub)
                sub2.update({sympy.Symbol(n + "_2", real=True): vals2[n] for n in names})
                o2 = AR.obj_of(s, mom, vals2)
                dd, do = v.dot(w), o.dot(o2)
                F.check("C08", f"replay/dot{tag}", AR.close(complex(sympy.N(dd.subs(sub2), 30)).real, float(do), 1e-9, 1e-10))
                sm, so = v.add(w), o.add(o2)
                for n in ("x", "y"):
                    F.check("C08", f"replay/add.{n}{tag}", AR.close(complex(sympy.N(getattr(sm, n).subs(sub2), 30)).real, float(getattr(so, n)), 1e-9, 1e-10))
                if d == 4:
                    b = sympy.Symbol("beta", real=True)
                    bz, bo = v.boostZ(beta=b), o.boostZ(beta=0.3)
                    for n in ("z", "t"):
                        F.check("C08", f"replay/boostZ.{n}{tag}", AR.close(complex(sympy.N(getattr(bz, n).subs(sub).subs({b: 0.3}), 30)).real, float(getattr(bo, n)), 1e-9, 1e-10))
            except Exception as e:
                F.check("C08", f"replay/methods{tag}", False, f"{type(e).__name__}: {str(e)[:160]}")


def sympy_vs_object_glue(F, systems=None):
    """Glue contract of the SymPy backend, for all values (the coordinates are SymPy symbols): every method of a SymPy vector returns what
    the object backend returns when it runs the same compute functions with the same `lib` on the same symbols - same coordinate
    system, flavor and stored expressions.  (The object backend's glue is decided by C05/C04/C14 on opaque tokens.)"""
    import numpy
    import sympy
    import vector
    from vector._lib import SympyLib
    import vector.backends.object as OB
    from .. import arrays as AR
    stats = dict(evaluated=0, not_evaluable=0)
    saved = (OB.VectorObject.lib,)
    OB.VectorObject.lib = SympyLib()
    OCLS = {(2, False): OB.VectorObject2D, (3, False): OB.VectorObject3D, (4, False): OB.VectorObject4D,
            (2, True): OB.MomentumObject2D, (3, True): OB.MomentumObject3D, (4, True): OB.MomentumObject4D}
    SCLS = {(2, False): vector.VectorSympy2D, (3, False): vector.VectorSympy3D, (4, False): vector.VectorSympy4D,
            (2, True): vector.MomentumSympy2D, (3, True): vector.MomentumSympy3D, (4, True): vector.MomentumSympy4D}
    AZ = {"xy": OB.AzimuthalObjectXY, "rhophi": OB.AzimuthalObjectRhoPhi}
    LO = {"z": OB.LongitudinalObjectZ, "theta": OB.LongitudinalObjectTheta, "eta": OB.LongitudinalObjectEta}
    TE = {"t": OB.TemporalObjectT, "tau": OB.TemporalObjectTau}

    def mk(s, mom, suffix):
        names = AR.names_of(s)
        syms = [sympy.Symbol(n + suffix, real=True) for n in names]
        sv = SCLS[(len(s) + 1, mom)](**{(AR.MOM.get(n, n) if mom else n): x for n, x in zip(names, syms)})
        kw = dict(azimuthal=AZ[s[0]](syms[0], syms[1]))
        if len(s) >= 2:
            kw["longitudinal"] = LO[s[1]](syms[2])
        if len(s) >= 3:
            kw["temporal"] = TE[s[2]](syms[3])
        return sv, OCLS[(len(s) + 1, mom)](**kw)

    points = []

    def same_expr(a, b):
        if isinstance(a, (bool, numpy.bool_)) or isinstance(b, (bool, numpy.bool_)):
            return bool(a) == bool(b)
        try:
            if a == b:
                return True
            # different expressions: they must still denote the same number on the regular domain (three regular points; bounded)
            stats["numeric_fallback"] = stats.get("numeric_fallback", 0) + 1
            for sub in points:
                x, y = complex(sympy.N(a.subs(sub), 30)), complex(sympy.N(b.subs(sub), 30))
                if not (abs(x.imag) < 1e-12 and abs(y.imag) < 1e-12 and AR.close(x.real, y.real, 1e-12, 1e-12)):
                    return False
            return True
        except Exception:
            return False

    def compare(tag, f, sargs, oargs):
        try:
            with numpy.errstate(all="ignore"):
                got = f(*sargs)
        except Exception:
            stats["not_evaluable"] += 1
            return
        try:
            with numpy.errstate(all="ignore"):
                exp = f(*oargs)
        except Exception as e:
            stats["not_evaluable"] += 1       # the object backend cannot run this operation on symbols: no reference
            return
        stats["evaluated"] += 1
        if isinstance(exp, vector.Vector):
            ok = isinstance(got, vector.Vector) and AR.sysof(got) == AR.sysof(exp) and isinstance(got, vector.Momentum) == isinstance(exp, vector.Momentum)
            F.check("C08", f"sympy-glue/result-system-and-flavor/{tag}", ok, dict(got=type(got).__name__ + str(AR.sysof(got) if isinstance(got, vector.Vector) else ""), expected=type(exp).__name__ + str(AR.sysof(exp))))
            if ok:
                for n in AR.names_of(AR.sysof(exp)):
                    F.check("C08", f"sympy-glue/{n}/{tag}", same_expr(getattr(got, n), getattr(exp, n)), dict(got=str(getattr(got, n))[:160], expected=str(getattr(exp, n))[:160]))
        elif isinstance(exp, tuple):
            F.check("C08", f"sympy-glue/value/{tag}", isinstance(got, tuple) and len(got) == len(exp) and all(same_expr(a, b) for a, b in zip(got, exp)), dict(got=str(got)[:160], expected=str(exp)[:160]))
        else:
            F.check("C08", f"sympy-glue/value/{tag}", not isinstance(got, vector.Vector) and same_expr(got, exp), dict(got=str(got)[:160], expected=str(exp)[:160]))

    try:
        allsys = list(AR.systems())
        for s in (systems or allsys):
            d = len(s) + 1
            for mom in (False, True):
                sv, ov = mk(s, mom, "")
                tag0 = f"[{','.join(s)}|{'mom' if mom else 'gen'}]"
                rng = random.Random(hash((tuple(s), mom)) & 0xFFFFF)
                points[:] = [{sympy.Symbol(n, real=True): v_ for n, v_ in AR.one(s, rng).items()} for _ in range(3)]
                for name, f in E_unary(d, mom):
                    compare(f"{name}{tag0}", f, (sv,), (ov,))
                for s2 in allsys:
                    d2 = len(s2) + 1
                    ops2 = E_binary(d, d2)
                    if not ops2:
                        continue
                    sw, ow = mk(s2, not mom if (hash((s, s2)) & 1) else mom, "_2")
                    points[:] = []
                    for _ in range(3):
                        p1, p2 = AR.one(s, rng), AR.one(s2, rng)
                        sub = {sympy.Symbol(n, real=True): v_ for n, v_ in p1.items()}
                        sub.update({sympy.Symbol(n + "_2", real=True): v_ for n, v_ in p2.items()})
                        points.append(sub)
                    for name, f in ops2:
                        compare(f"{name}{tag0}x[{','.join(s2)}]", f, (sv, sw), (ov, ow))
    finally:
        OB.VectorObject.lib = saved[0]
    return stats


def E_unary(d, mom):
    from .. import engined as E
    return E.unary_ops(d, mom)


def E_binary(d, d2):
    from .. import engined as E
    return E.binary_ops(d, d2)


def sympy_numeric_replay(F, s, seed=0):
    """BOUNDED: the statement itself, at regular points - every unary / binary operation of a SymPy vector, evaluated at numeric values of its
    symbols, gives the numbers the object backend (NumPy lib) gives for those values.  Complements the glue contract above, which compares
    the SymPy backend with the object backend *under the same SympyLib* and therefore cannot see a defect of SympyLib itself."""
    import numpy
    import sympy
    import vector
    from .. import arrays as AR
    rng = random.Random(hash((tuple(s), seed)) & 0xFFFFF)
    SCLS = {(2, False): vector.VectorSympy2D, (3, False): vector.VectorSympy3D, (4, False): vector.VectorSympy4D,
            (2, True): vector.MomentumSympy2D, (3, True): vector.MomentumSympy3D, (4, True): vector.MomentumSympy4D}
    d = len(s) + 1
    names = AR.names_of(s)

    def mk(s_, mom, suffix, vals):
        nm = AR.names_of(s_)
        syms = {n: sympy.Symbol(n + suffix, real=True) for n in nm}
        sv = SCLS[(len(s_) + 1, mom)](**{(AR.MOM.get(n, n) if mom else n): syms[n] for n in nm})
        return sv, AR.obj_of(s_, mom, vals), {syms[n]: vals[n] for n in nm}

    def num(e, sub):
        if isinstance(e, (bool, numpy.bool_)):
            return bool(e)
        if hasattr(e, "subs"):
            v_ = e.subs(sub)
            if v_ in (sympy.true, sympy.false):
                return bool(v_)
            c = complex(sympy.N(v_, 30))
            return c.real if abs(c.imag) < 1e-12 else c
        return e

    def compare(tag, f, sargs, oargs, sub):
        try:
            with numpy.errstate(all="ignore"):
                got = f(*sargs)
                exp = f(*oargs)
        except Exception:
            return
        try:
            if isinstance(exp, vector.Vector):
                if not isinstance(got, vector.Vector) or AR.sysof(got) != AR.sysof(exp):
                    return      # reported by the glue contract
                if vector.dim(exp) == 4 and not (float(exp.t) > 0 and float(exp.tau) > 0):
                    return      # outside the regular domain of the statement (result not forward timelike: sign conventions of tau / copysign)
                for n in AR.names_of(AR.sysof(exp)):
                    g, e = num(getattr(got, n), sub), float(getattr(exp, n))
                    ok = AR.ang_close(g, e) if n == "phi" else AR.close(g, e, 1e-9, 1e-10)
                    F.check("C08", f"replay-all/{n}/{tag}", bool(ok), dict(symbolic=str(g)[:60], numeric=e))
            elif isinstance(exp, tuple) or isinstance(got, tuple):
                return
            else:
                g = num(got, sub)
                e = exp.item() if isinstance(exp, numpy.generic) else exp
                if isinstance(e, (bool, numpy.bool_)) or isinstance(g, bool):
                    if isinstance(g, bool):
                        F.check("C08", f"replay-all/value/{tag}", bool(g) == bool(e), dict(symbolic=g, numeric=e))
                    return
                F.check("C08", f"replay-all/value/{tag}", AR.close(g, float(e), 1e-9, 1e-10), dict(symbolic=str(g)[:60], numeric=float(e)))
        except Exception:
            return

    skip = ("isclose", "equal", "==", "!=", "allclose", "is_", "(gamma)")      # Eq ignores tolerances; a negative gamma carries the direction through copysign (documented exclusions)
    for mom in (False, True):
        v1 = AR.one(s, rng)
        sv, ov, sub = mk(s, mom, "", v1)
        tag0 = f"[{','.join(s)}|{'mom' if mom else 'gen'}]"
        for name, f in E_unary(d, mom):
            if any(k in name for k in skip):
                continue
            compare(f"{name}{tag0}", f, (sv,), (ov,), sub)
        for s2 in AR.systems():
            d2 = len(s2) + 1
            if (hash((tuple(s), tuple(s2))) % 3) != 0:
                continue
            sw, ow, sub2 = mk(s2, mom, "_2", AR.one(s2, rng))
            both = dict(sub)
            both.update(sub2)
            for name, f in E_binary(d, d2):
                if any(k in name for k in skip):
                    continue
                compare(f"{name}{tag0}x[{','.join(s2)}]", f, (sv, sw), (ov, ow), both)


def _sympy_glue_worker(s):
    from .. import engined as E
    from . import c15
    import vector
    F = E.Fails()
    st = sympy_vs_object_glue(F, [s])
    # in-place operators of the SymPy backend (its own _replace_data): every stored coordinate equals the functional result's
    d = len(s) + 1
    for mom in (False, True):
        cls = {(2, False): vector.VectorSympy2D, (3, False): vector.VectorSympy3D, (4, False): vector.VectorSympy4D,
               (2, True): vector.MomentumSympy2D, (3, True): vector.MomentumSympy3D, (4, True): vector.MomentumSympy4D}[(d, mom)]
        c15.sympy_inplace(lambda oid, ok, dd=None: F.check("C08", oid, ok, dd), cls, tuple(s), mom, prefix="sympy-glue/inplace")
    sympy_numeric_replay(F, tuple(s), C.seed())
    return F.n, F.bad, st


def _glue_worker(seed):
    from .. import engined as E
    F = E.Fails()
    lib_table(F)
    glue_and_replay(F, seed)
    # the SymPy backend's own setters (generic and momentum spellings): read back, partner coordinate and other groups untouched
    from . import c15

    class _Ob:
        def check(self, oid, ok, d=None):
            F.check("C08", oid.replace("sympy/", "sympy-glue/", 1), ok, d)
    c15.sympy_part(_Ob())
    return F.n, F.bad


def main(argv):
    t_start = time.time()
    jobs = [(pk, n, sig) for pk, n, m in ops.all_modules() if n != "isclose" for sig in m.dispatch_map]
    res = C.pool_map(shadow_worker, jobs)
    res, _ = C.rerun_unknown(shadow_worker, jobs, res)
    # the contract of spatial.mag instantiated in the deltaangle jobs is re-discharged here (self-contained check)
    res += C.pool_map(enginea.run_variant_job, [("spatial", "mag", sig, "C08") for pk, n, m in ops.all_modules() if (pk, n) == ("spatial", "mag") for sig in m.dispatch_map])
    n_, bad_ = C.pool_map(_glue_worker, [C.seed(), C.seed() + 1])[0]
    from .. import arrays as AR
    gres = C.pool_map(_sympy_glue_worker, list(AR.systems()))
    n_ += sum(r[0] for r in gres)
    bad_ = list(bad_) + [b for r in gres for b in r[1]]
    gstats = dict(evaluated=sum(r[2]["evaluated"] for r in gres), not_evaluable=sum(r[2]["not_evaluable"] for r in gres), numeric_fallback=sum(r[2].get("numeric_fallback", 0) for r in gres))
    if gstats["evaluated"] < 5000:
        bad_.append(("C08", "C08/sympy-glue/vacuity", f"only {gstats['evaluated']} method calls could be evaluated on both backends"))
    extra = dict(id="C08/sympy-backend", pk="sympy", mod="backend", sig="", status="proved" if not bad_ else "refuted", t=0, cases=1, refuter_points=0, engine_crosschecks=0, obligations=[])
    failed = {oid for p, oid, d in bad_}
    groups = {}
    for p, oid, d in bad_:
        groups.setdefault(oid.split("[")[0], []).append((oid, d))
    for g, items in sorted(groups.items()):      # one reported obligation per kind of failure (first lattice point; the others are listed in the counterexample)
        oid, d = items[0]
        extra["obligations"].append(dict(id=oid, kind="value", status="refuted", by="expression identity / numeric replay on the real SymPy backend", t=0,
                                         counterexample=dict(detail=d, failing_lattice_points=len(items), others=[o for o, _ in items[1:6]])))
    extra["obligations"].append(dict(id="C08/sympy-backend/contracts-evaluated", kind="value", status="proved", by=f"{n_ - len(bad_)} table / glue / replay contracts on the real SymPy backend; method glue: {gstats}", t=0))
    return enginea_prop.run("C08", [], "DESIGN 4/C08", extra_results=res + [extra, cauchy_schwarz_lemma()], t_start=t_start,
                            extra_assumptions=["SymPy's own elementary functions denote the same real functions as NumPy's (trusted)",
                                               "regular domain of the statement: every operand off the z axis, forward (t > 0) and timelike; tau-stored operands have tau > 0",
                                               "isclose becomes Eq in the symbolic backend and ignores tolerances: the three isclose modules are outside the 'same number' clause for positive tolerances",
                                               "SympyLib.sign only accepts numbers: scale factors are configuration values in the symbolic backend"],
                            functions_note="For every variant of every module (except isclose): each occurrence of maximum / minimum / copysign acts, on the regular domain, as the replacement "
                                           "SympyLib documents; contract table of SympyLib; SymPy-backend getters equal the live table entries on the stored symbols; bounded numeric replay.")
