"""Driver for lemma-based properties: lemma jobs + the C01 (and C02) obligations of the modules the lemmas are transported through."""
from __future__ import annotations

import importlib

from .. import common as C
from .. import ops, enginea, lemmas
from ..views import is_cart
from . import enginea_prop


def _lemma_worker(args):
    modname, idx = args
    mod = importlib.import_module(modname)
    return lemmas.run_lemma_job(mod.LEMMAS[idx])


def run(prop, modname, mods, kernels=False, c02_mods=(), note="", extra_assumptions=(), post=None, extra_jobs=()):
    import time
    t_start = time.time()
    mod = importlib.import_module(modname)
    lemma_args = [(modname, i) for i in range(len(mod.LEMMAS))]
    lres = C.pool_map(_lemma_worker, lemma_args)
    lres, _ = C.rerun_unknown(_lemma_worker, lemma_args, lres)
    jobs = [(pk, n, sig, prop) for pk, n, m in ops.all_modules() if n in mods and (mods_pk(prop, pk, n, mods)) for sig in m.dispatch_map]
    if kernels:
        jobs += [("lorentz", "boost_beta3", "kernel", prop), ("lorentz", "boost_p4", "kernel", prop)]
    jobs += list(extra_jobs)
    # C02-form obligations (Cartesian variant == documented definition) for the listed modules, under this property's label
    c02 = [(pk, n, sig, "C02") for pk, n, m in ops.all_modules() if n in c02_mods and mods_pk(prop, pk, n, c02_mods) for sig in m.dispatch_map if is_cart(sig)]
    c02res = C.pool_map(enginea.run_variant_job, c02) if c02 else []
    if c02:
        c02res, _ = C.rerun_unknown(enginea.run_variant_job, c02, c02res)
    for r in c02res:
        r["id"] = r["id"].replace("C02/", f"{prop}/def:", 1)
        for o in r["obligations"]:
            o["id"] = o["id"].replace("C02/", f"{prop}/def:", 1)
    from . import glue_part
    own_post = post

    def both(report, results, coverage):
        if own_post:
            own_post(report, results, coverage)
        if prop in glue_part.PATTERNS:
            glue_part.run(prop, report, coverage)
    return enginea_prop.run(prop, jobs, f"DESIGN 4/{prop}", extra_assumptions=extra_assumptions, functions_note=note,
                            extra_results=lres + c02res, post=both, t_start=t_start)


PK_FILTER = {}


def mods_pk(prop, pk, n, mods):
    f = PK_FILTER.get(prop)
    return True if f is None else (pk, n) in f
