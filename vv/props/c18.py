"""C18 - Awkward arrays keep structure and extra fields through vector operations (DESIGN 4/C18).  BOUNDED (Engine D)."""
from . import engined_prop


def extra(F):
    """records selected from an array behave like the equivalent vector object (methods and properties)"""
    import numpy as np
    import vector
    from .. import arrays as AR
    import random
    rng = random.Random(5)
    for s in AR.systems():
        for mom in (False, True):
            arr, struct = AR.build("ak-jagged", s, mom, rng, extras=True)
            rec = arr[0, 1]
            o = AR.obj_of(s, mom, struct[0][1])
            tag = f"[{','.join(s)}|{'mom' if mom else 'gen'}]"
            F.check("C18", f"C18/record-from-array-is-vector{tag}", isinstance(rec, vector.Vector) and isinstance(rec, vector.Momentum) == mom and AR.sysof(rec) == AR.sysof(o))
            for p in ("x", "y", "rho", "phi") + (("z", "eta", "theta", "mag") if len(s) > 1 else ()) + (("t", "tau", "beta") if len(s) > 2 else ()):
                with np.errstate(all="ignore"):
                    F.check("C18", f"C18/record-property/{p}{tag}", AR.close(getattr(rec, p), getattr(o, p)) or (p == "phi" and AR.ang_close(getattr(rec, p), getattr(o, p))))
            r2 = rec.rotateZ(0.25)
            o2 = o.rotateZ(0.25)
            F.check("C18", f"C18/record-method-result-is-vector-record{tag}", isinstance(r2, vector.Vector) and AR.close(r2.x, o2.x) and AR.close(r2.y, o2.y) and "charge" in r2.fields)


def main(argv):
    return engined_prop.run("C18", {"C18"}, "Same list structure / missing positions / nesting as the operand(s); one-vector operations carry every non-coordinate field; "
                            "operations combining two vectors return only coordinates; records behave like vector objects.", extra_checks=extra,
                            # "a record behaves like the equivalent vector object": for the record layout the value / class / coordinate-system contracts
                            # against the object backend (tags C03, C05 of the lattice) belong to this property too
                            also=lambda tag, oid: tag in ("C03", "C05") and "|ak-record" in oid)
