"""C02 - every operation computes its documented mathematical definition (DESIGN 4/C02).
The all-Cartesian variant of each of the 82 operations (12 for rotate_euler) is proved equal to the spec function written
from the documentation (vv/specs.py); C01 transports this to every other variant."""
from .. import common as C
from .. import enginea, ops
from ..views import is_cart
from . import enginea_prop, c01


def jobs(prop="C02", filt=""):
    return [(pk, n, sig, prop) for pk, n, m in ops.all_modules() for sig in m.dispatch_map if is_cart(sig) and filt in f"{pk}.{n}["]


def main(argv):
    import time
    t0 = time.time()
    # transport: every other variant equals the all-Cartesian one on the Cartesian view of its operands (the C01 contracts,
    # re-discharged here under this property's label so that the definition is decided for every storage, not only x, y, z, t)
    tres = C.pool_map(enginea.run_variant_job, c01.jobs("C01"))
    for r in tres:
        r["id"] = r["id"].replace("C01/", "C02/transport:", 1)
        for o in r["obligations"]:
            o["id"] = o["id"].replace("C01/", "C02/transport:", 1)
    return enginea_prop.run("C02", jobs(), "DESIGN 4/C02",
                            extra_assumptions=["the float64 clause of the statement (result within a small multiple of rounding error) is not decided: rounding analysis is outside the family"],
                            functions_note="Each all-Cartesian variant is proved equal to its spec function (vv/specs.py, written from the documentation); every other variant is "
                                           "proved equal to the all-Cartesian one on the Cartesian view of its operands (obligations `C02/transport:...`, the C01 contracts).",
                            extra_results=tres, t_start=t0, post=__import__("vv.props.glue_part", fromlist=["post"]).post("C02"))
