"""C02 - every operation computes its documented mathematical definition (DESIGN 4/C02).
The all-Cartesian variant of each of the 82 operations (12 for rotate_euler) is proved equal to the spec function written
from the documentation (vv/specs.py); C01 transports this to every other variant."""
from .. import ops
from ..views import is_cart
from . import enginea_prop


def jobs(prop="C02", filt=""):
    return [(pk, n, sig, prop) for pk, n, m in ops.all_modules() for sig in m.dispatch_map if is_cart(sig) and filt in f"{pk}.{n}["]


def main(argv):
    return enginea_prop.run("C02", jobs(), "DESIGN 4/C02",
                            extra_assumptions=["the float64 clause of the statement (result within a small multiple of rounding error) is not decided: rounding analysis is outside the family",
                                               "other variants than the all-Cartesian one compute the definition by C01 (checked by ./check C01)"],
                            functions_note="Each all-Cartesian variant is proved equal to its spec function (vv/specs.py, written from the documentation).")
