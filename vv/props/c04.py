"""C04 - coordinate conversions and dimension changes lose nothing (DESIGN 4/C04).

(a) object backend on symbolic coordinates, complete lattice 20 source systems x 2 flavors x 40 to_<system> spellings x keyword
    choices, plus to_Vector2D/3D/4D, to_2D/3D/4D, like: retained coordinates are the *same term*, imputed coordinates are
    the keyword value (in the coordinate type the keyword names) or zero, conversions to the stored system return the
    stored terms, converted coordinates are the accessor table entries applied to the stored coordinates (glue);
(b) Engine A lemma jobs: for every ordered pair of systems of equal dimension, converting the stored coordinates with the real
    accessor functions and back returns the stored coordinates (on the representable domain)."""
from __future__ import annotations

import itertools
import time

import numpy

from .. import common as C
from .. import objsym as O
from ..lemmas import LemmaJob
from ..objsym import T
from . import lemma_prop

AZN = {"xy": "xy", "rhophi": "rhophi"}
GEN_TARGETS = [s for s in O.systems()]
MOMNAME = {"x": "px", "y": "py", "rho": "pt", "phi": "phi", "z": "pz", "theta": "theta", "eta": "eta", "t": "energy", "tau": "mass"}
ACC_PK = {"x": "planar", "y": "planar", "rho": "planar", "phi": "planar", "z": "spatial", "theta": "spatial", "eta": "spatial", "t": "lorentz", "tau": "lorentz"}


def method_name(target, mom):
    names = O.names_of(target)
    return "to_" + "".join(MOMNAME[n] if mom else n for n in names)


def shard(args):
    s1, mom1 = args
    O.install()
    ob = O.Obligations("C04")
    v = O.make(s1, mom1, "1")
    d = len(s1) + 1
    sid = f"[{','.join(s1)}|{'mom' if mom1 else 'gen'}]"
    stored = dict(zip(O.names_of(s1), O.coords(v)))
    for target in GEN_TARGETS:
        for momspell in (False, True):
            mname = method_name(target, momspell)
            tnames = O.names_of(target)
            td = len(target) + 1
            # keyword choices for the coordinates that have to be imputed (target groups beyond the source's dimension)
            missing = tnames[2 + max(0, d - 2):] if td > d else []
            kwsets = [{}]
            if missing:
                kwsets.append({(MOMNAME[n] if momspell else n): T(f"kw_{n}") for n in missing})
                if len(missing) == 2:
                    kwsets.append({(MOMNAME[missing[0]] if momspell else missing[0]): T(f"kw_{missing[0]}")})
                    kwsets.append({(MOMNAME[missing[1]] if momspell else missing[1]): T(f"kw_{missing[1]}")})
            for kw in kwsets:
                kid = f"{mname}({','.join(sorted(kw))}){sid}"
                try:
                    with numpy.errstate(all="ignore"):
                        r = getattr(v, mname)(**kw)
                except Exception as e:
                    ob.check(f"defined/{kid}", False, f"{type(e).__name__}: {str(e)[:200]}")
                    continue
                a = O.describe(r)
                ob.check(f"target-system/{kid}", a["system"] == tuple(target), f"{a['system']} != {target}")
                ob.check(f"flavor-kept/{kid}", a["momentum"] == mom1, f"momentum {a['momentum']}")
                got = dict(zip(tnames, a["coords"]))
                for gi, grp in enumerate((tnames[:2], tnames[2:3], tnames[3:4])):
                    for n in grp:
                        have_group = gi < d - 1
                        if have_group:
                            if n in stored:
                                ob.check(f"stored-unchanged/{n}/{kid}", O.same(got[n], stored[n]), dict(got=repr(got[n])[:150], stored=repr(stored[n])[:150]))
                            else:
                                # converted coordinate == accessor table entry applied to the stored coordinates
                                raw, _ = O.table_call(ACC_PK[n], n, [v])
                                ob.check(f"conversion-glue/{n}/{kid}", O.same(got[n], raw), dict(got=repr(got[n])[:150], expected=repr(raw)[:150]))
                        else:
                            key = MOMNAME[n] if momspell else n
                            want = kw.get(key, 0.0)
                            ob.check(f"imputed/{n}/{kid}", O.same(got[n], want), dict(got=repr(got[n])[:100], expected=repr(want)))
    # ---- projections / embeddings
    for name in ("to_Vector2D", "to_2D"):
        r = O.describe(getattr(v, name)())
        ob.check(f"projection/{name}{sid}", r["system"] == tuple(s1[:1]) and O.same(r["coords"], O.coords(v)[:2]) and r["momentum"] == mom1, _sh(r))
    lkeys = {"z": "z", "pz": "z", "theta": "theta", "eta": "eta"}
    tkeys = {"t": "t", "e": "t", "E": "t", "energy": "t", "tau": "tau", "m": "tau", "M": "tau", "mass": "tau"}
    for name in ("to_Vector3D", "to_3D"):
        choices = [({}, None)] + ([({k: T("kl")}, g) for k, g in lkeys.items()] if d == 2 else [])
        for kw, grp in choices:
            kid = f"{name}({','.join(kw)}){sid}"
            try:
                r = O.describe(getattr(v, name)(**kw))
            except Exception as e:
                ob.check(f"defined/{kid}", False, f"{type(e).__name__}: {e}")
                continue
            if d == 2:
                exp_sys = (s1[0], grp or "z")
                exp_co = O.coords(v)[:2] + [kw[next(iter(kw))] if kw else 0.0]
            else:
                exp_sys = tuple(s1[:2])
                exp_co = O.coords(v)[:3]
            ob.check(f"embedding/{kid}", r["system"] == exp_sys and O.same(r["coords"], exp_co) and r["momentum"] == mom1, dict(got=_sh(r), expected=(exp_sys, [repr(c) for c in exp_co])))
        if d == 2:
            ob.raises(f"typeerror/{name}-two-longitudinal{sid}", lambda name=name: getattr(v, name)(z=T("a"), eta=T("b")))
    for name in ("to_Vector4D", "to_4D"):
        lch = [({}, None)] + ([({k: T("kl")}, g) for k, g in lkeys.items()] if d == 2 else [])
        tch = [({}, None)] + ([({k: T("kt")}, g) for k, g in tkeys.items()] if d <= 3 else [])
        for (lkw, lg), (tkw, tg) in itertools.product(lch, tch):
            kw = dict(lkw, **tkw)
            kid = f"{name}({','.join(kw)}){sid}"
            try:
                r = O.describe(getattr(v, name)(**kw))
            except Exception as e:
                ob.check(f"defined/{kid}", False, f"{type(e).__name__}: {e}")
                continue
            co = O.coords(v)
            if d == 2:
                exp_sys = (s1[0], lg or "z", tg or "t")
                exp_co = co[:2] + [lkw[next(iter(lkw))] if lkw else 0.0, tkw[next(iter(tkw))] if tkw else 0.0]
            elif d == 3:
                exp_sys = (s1[0], s1[1], tg or "t")
                exp_co = co[:3] + [tkw[next(iter(tkw))] if tkw else 0.0]
            else:
                exp_sys, exp_co = tuple(s1), co
            ob.check(f"embedding/{kid}", r["system"] == exp_sys and O.same(r["coords"], exp_co) and r["momentum"] == mom1, dict(got=_sh(r), expected=(exp_sys, [repr(c) for c in exp_co])))
        if d <= 3:
            ob.raises(f"typeerror/{name}-two-temporal{sid}", lambda name=name: getattr(v, name)(t=T("a"), mass=T("b")))
    # ---- like
    for s2 in O.systems():
        w = O.make(s2, False, "2")
        d2 = len(s2) + 1
        try:
            r = O.describe(v.like(w))
        except Exception as e:
            ob.check(f"defined/like{sid}x[{','.join(s2)}]", False, f"{type(e).__name__}: {e}")
            continue
        co = O.coords(v)
        if d2 <= d:
            exp_sys, exp_co = tuple(s1[: d2 - 1]), co[: d2]
        else:
            exp_sys = tuple(s1) + (("z",) if d == 2 else ()) + (("t",) if d2 == 4 else ())
            exp_co = co + [0.0] * (d2 - d)
        ob.check(f"like/{sid}x[{','.join(s2)}]", r["system"] == exp_sys and O.same(r["coords"], exp_co) and r["momentum"] == mom1, dict(got=_sh(r), expected=(exp_sys, [repr(c) for c in exp_co])))
    return ob.n, ob.bad


def _sh(d):
    return dict(system=d["system"], momentum=d["momentum"], coords=[repr(c)[:100] for c in d["coords"]])


# ---------------------------------------------------------------------------------------------- round trips (Engine A)
def l_roundtrip(dim, s, t):
    pk = {2: "planar", 3: "spatial", 4: "lorentz"}[dim]
    gs, gt = ",".join(s), ",".join(t)

    def lemma(L):
        tc = L.case.get("tau1", "nonneg")
        a = L.vec("1", gs, tau_case=tc)
        w = L.view(gs, a)
        # the exact vector must be representable in the target system too (statement of C01/C04)
        if "theta" in t or "eta" in t or "rhophi" in t:
            L.assume(w[0] * w[0] + w[1] * w[1] > 0)
        if "tau" in t and "tau" not in s:
            pass        # tau is defined for every t (negative for spacelike)
        if "t" in s and "tau" in t:
            L.assume(w[3] > 0)      # non-negative time for tau storage (strict: t = 0 is a singular stratum)

        def convert(src_sig, coords, target):
            out = []
            for n in O.names_of(target):
                out.append(L.fn(ACC_PK[n], n, ",".join(src_sig[: {"planar": 1, "spatial": 2, "lorentz": 3}[ACC_PK[n]]]))(
                    *coords[: {"planar": 2, "spatial": 3, "lorentz": 4}[ACC_PK[n]]]))
            return out
        b = convert(s, a, t)
        back = convert(t, b, s)
        if L.mode == "sym":
            L.eq("round-trip", L.view(gs, back), L.view(gs, a))       # same geometric vector
            for n, x, y in zip(O.names_of(s), back, a):
                L.eq(f"coordinate.{n}", x, y)                         # and, on the representable domain, the same stored coordinates
        else:
            L.eq("round-trip", L.view(gs, back), L.view(gs, a))
    return lemma


from .c12 import systems as _systems, tau_cases  # noqa: E402

LEMMAS = []
for _d in (2, 3, 4):
    for _s in _systems(_d):
        for _t in _systems(_d):
            if _s != _t:
                LEMMAS.append(LemmaJob("C04", f"roundtrip[{','.join(_s)}->{','.join(_t)}]", l_roundtrip(_d, _s, _t), cases=tau_cases(_s)))


def array_dtype_part(job):
    """BOUNDED: embeddings / to_<system>(keyword=...) on NumPy and Awkward arrays whose columns are integer- or float32-typed: the imputed
    coordinate is exactly the keyword value, the stored coordinates keep their values (and, for embeddings, their dtype)"""
    import numpy as np
    import vector
    from .. import arrays as AR
    from .. import engined as E
    try:
        import awkward as ak
    except Exception:
        ak = None
    system, mom = job
    F = E.Fails()
    names = AR.names_of(system)
    d = len(system) + 1
    if d == 4:
        return F.n, F.bad
    key = (lambda n: AR.MOM.get(n, n)) if mom else (lambda n: n)
    tag0 = f"[{','.join(system)}|{'mom' if mom else 'gen'}"
    kw2 = [("to_Vector3D", dict(z=2.5), "z"), ("to_Vector3D", dict(theta=0.75), "theta"), ("to_Vector3D", dict(eta=-1.25), "eta"),
           ("to_Vector4D", dict(z=2.5, t=7.25), "t"), ("to_Vector4D", dict(eta=-1.25, tau=0.105), "tau"), ("to_xyzt", dict(z=2.5, t=7.25), "t"),
           ("to_rhophietatau", dict(eta=-1.25, tau=0.105), "tau")]
    kw3 = [("to_Vector4D", dict(t=7.25), "t"), ("to_Vector4D", dict(tau=0.105), "tau"), ("to_xyzt", dict(t=7.25), "t"), ("to_rhophithetatau", dict(tau=0.105), "tau")]
    if mom:
        kw2 += [("to_Vector4D", dict(pz=2.5, mass=0.105), "tau"), ("to_Vector4D", dict(pz=2.5, E=7.25), "t")]
        kw3 += [("to_Vector4D", dict(mass=0.105), "tau"), ("to_Vector4D", dict(energy=7.25), "t")]
    from vector._methods import _repr_momentum_to_generic as G
    for dt in (np.int64, np.float32):
        base = {n: (np.array([1, 2, 3]) + i).astype(dt) for i, n in enumerate(names)}
        layouts = [("np(3)", lambda: vector.array({key(n): base[n].copy() for n in names}))]
        if ak is not None:
            layouts += [("ak-flat", lambda: vector.zip({key(n): ak.Array(base[n]) for n in names})),
                        ("ak-jagged", lambda: vector.zip({key(n): ak.unflatten(ak.Array(base[n]), [2, 0, 1]) for n in names}))]
        for lname, mkarr in layouts:
            for meth, kwargs, probe in (kw2 if d == 2 else kw3):
                tag = f"{meth}({','.join(f'{k}={v}' for k, v in kwargs.items())}){tag0}|{lname}|{np.dtype(dt).name}]"
                try:
                    with np.errstate(all="ignore"):
                        r = getattr(mkarr(), meth)(**kwargs)
                    for k, val in kwargs.items():
                        g = G.get(k, k)
                        col = getattr(r, g)
                        flat = np.asarray(ak.to_numpy(ak.flatten(col, axis=None))) if (ak is not None and isinstance(col, ak.Array)) else np.asarray(col).reshape(-1)
                        F.check("C04", f"array-dtypes/imputed-{g}-is-the-keyword-value/{tag}", flat.shape == (3,) and bool(np.all(flat == val)), dict(got=flat.tolist(), expected=val))
                    if meth.startswith("to_Vector"):
                        for n in names:
                            col = r[key(n)] if (lname == "np(3)" and key(n) in (r.dtype.names or ())) else getattr(r, n)
                            flat = np.asarray(ak.to_numpy(ak.flatten(col, axis=None))) if (ak is not None and isinstance(col, ak.Array)) else np.asarray(col).reshape(-1)
                            F.check("C04", f"array-dtypes/stored-{n}-kept/{tag}", flat.dtype == np.dtype(dt) and bool(np.all(flat == base[n])), dict(got=flat.tolist(), dtype=str(flat.dtype)))
                except Exception as e:
                    F.check("C04", f"array-dtypes/defined/{tag}", False, f"{type(e).__name__}: {str(e)[:160]}")
    return F.n, F.bad


def boundary_roundtrips(job):
    """BOUNDED: the boundary stratum the embeddings themselves create - a lower-dimensional vector embedded with the imputed zero (theta = 0,
    eta = 0, z = 0, t = 0, tau = 0) - converted to every other system of that dimension and back returns the stored coordinates
    (NumPy / Awkward arrays: IEEE semantics; inf == inf, absolute tolerance 1e-9)."""
    import math
    import numpy as np
    import vector
    from .. import arrays as AR
    from .. import engined as E
    try:
        import awkward as ak
    except Exception:
        ak = None
    system, mom = job
    F = E.Fails()
    if len(system) != 1:
        return F.n, F.bad
    vals = {"x": np.array([1.5, -2.0]), "y": np.array([-0.5, 0.75]), "rho": np.array([2.0, 0.5]), "phi": np.array([0.3, -2.5])}
    names = AR.names_of(system)
    key = (lambda n: AR.MOM.get(n, n)) if mom else (lambda n: n)
    backends = [("numpy", lambda: vector.array({key(n): vals[n].copy() for n in names}))]
    if ak is not None:
        backends.append(("awkward", lambda: vector.zip({key(n): ak.Array(vals[n]) for n in names})))
    sys3 = [s for s in AR.systems() if len(s) == 2]
    sys4 = [s for s in AR.systems() if len(s) == 3]

    def conv(v, s):
        return getattr(v, "to_" + "".join(s))()

    def col(v, n):
        c = getattr(v, n)
        return np.asarray(ak.to_numpy(c) if (ak is not None and isinstance(c, ak.Array)) else c, dtype=float)

    def same(a, b):
        return bool(np.all((np.isinf(a) & np.isinf(b) & (np.sign(a) == np.sign(b))) | (np.abs(np.where(np.isinf(a), 0, a) - np.where(np.isinf(b), 0, b)) <= 1e-9) & ~(np.isinf(a) ^ np.isinf(b))))
    tag0 = f"[{','.join(system)}|{'mom' if mom else 'gen'}"
    for bname, mkv in backends:
        for targets in (sys3,):         # 4D: an imputed t = 0 makes the vector spacelike with (for theta = 0) infinite components - outside the representable domain
            for T_ in targets:
                try:
                    with np.errstate(all="ignore"):
                        w = conv(mkv(), T_)           # imputes zeros for the missing coordinates
                        ref = {n: col(w, n) for n in AR.names_of(T_)}
                except Exception as e:
                    F.check("C04", f"boundary-roundtrip/defined/to_{''.join(T_)}{tag0}|{bname}]", False, f"{type(e).__name__}: {str(e)[:120]}")
                    continue
                for U in targets:
                    if U == T_:
                        continue
                    tag = f"to_{''.join(T_)}->to_{''.join(U)}->back{tag0}|{bname}]"
                    try:
                        with np.errstate(all="ignore"):
                            back = conv(conv(w, U), T_)
                        for n in AR.names_of(T_):
                            got = col(back, n)
                            ok = same(got, ref[n]) or (n == "phi" and bool(np.all(np.abs(np.angle(np.exp(1j * (got - ref[n])))) <= 1e-9)))
                            F.check("C04", f"boundary-roundtrip/{n}/{tag}", ok, dict(got=got.tolist(), expected=ref[n].tolist()))
                    except Exception as e:
                        F.check("C04", f"boundary-roundtrip/defined/{tag}", False, f"{type(e).__name__}: {str(e)[:120]}")
    return F.n, F.bad


def value_twin_probe(job):
    """BOUNDED: results depend on the operand only, bit for bit - never on value-equal operands converted earlier in the process.  Object vectors
    holding ==-equal but different numbers (float32 / float64, 0.0 / -0.0, 3.0 / 3) are converted one after another to every system of their
    dimension; every coordinate of every result must be, in type, value and sign of zero, what the live kernel gives when applied directly to the
    stored coordinates (the kernel call bypasses the backend's dispatch glue, so anything the glue remembers between calls shows)."""
    import importlib
    import math
    import numpy as np
    import vector
    from vector._methods import _aztype, _ltype, _ttype
    from .. import arrays as AR
    from .. import engined as E
    system, mom = job
    F = E.Fails()
    names = AR.names_of(system)
    dim = len(system) + 1
    base = dict(x=1.5, y=0.0, rho=1.5, phi=0.0, z=0.0, theta=0.75, eta=0.0, t=9.5, tau=2.25)
    base2 = dict(x=3.0, y=4.0, rho=5.0, phi=0.0, z=2.0, theta=1.0, eta=1.0, t=9.0, tau=2.0)
    variants = [("float32", {n: np.float32(base[n]) for n in names}), ("float64", {n: float(base[n]) for n in names}),
                ("negative-zero", {n: (-0.0 if base[n] == 0.0 else base[n]) for n in names}),
                ("float", {n: float(base2[n]) for n in names}), ("int", {n: int(base2[n]) for n in names})]
    PK = {"x": "planar", "y": "planar", "rho": "planar", "phi": "planar", "z": "spatial", "theta": "spatial", "eta": "spatial", "t": "lorentz", "tau": "lorentz"}

    def direct(v, n):
        m = importlib.import_module(f"vector._compute.{PK[n]}.{n}")
        if PK[n] == "planar":
            key, args = (_aztype(v),), v.azimuthal.elements
        elif PK[n] == "spatial":
            key, args = (_aztype(v), _ltype(v)), v.azimuthal.elements + v.longitudinal.elements
        else:
            key, args = (_aztype(v), _ltype(v), _ttype(v)), v.azimuthal.elements + v.longitudinal.elements + v.temporal.elements
        return m.dispatch_map[key][0](np, *args)

    def same(a, b):
        if type(a) is not type(b):
            return False
        if isinstance(a, (float, np.floating)) and (math.isnan(a) and math.isnan(b)):
            return True
        return bool(a == b) and math.copysign(1.0, float(a)) == math.copysign(1.0, float(b))
    tag0 = f"[{','.join(system)}|{'mom' if mom else 'gen'}"
    targets = [t for t in AR.systems() if len(t) == len(system)]
    for vname, vals in variants:
        try:
            v = AR.obj_of(system, mom, vals)
        except Exception as e:
            F.check("C04", f"value-twins/construct/{vname}{tag0}]", False, f"{type(e).__name__}: {str(e)[:120]}")
            continue
        for T_ in targets:
            tag = f"{vname}/to_{''.join(T_)}{tag0}]"
            try:
                with np.errstate(all="ignore"):
                    r = getattr(v, "to_" + "".join(T_))()
                    for n in AR.names_of(T_):
                        got, exp = getattr(r, n), direct(v, n)
                        F.check("C04", f"value-twins/{n}/{tag}", same(got, exp), dict(got=repr(got), got_type=type(got).__name__, expected=repr(exp), expected_type=type(exp).__name__, stored={k: repr(x) for k, x in vals.items()}))
            except Exception as e:
                F.check("C04", f"value-twins/defined/{tag}", False, f"{type(e).__name__}: {str(e)[:120]}")
    return F.n, F.bad


def main(argv):
    report = C.Report("C04")
    t0 = time.time()
    jobs = [(s, m) for s in O.systems() for m in (False, True)]
    res = O.concolic_map(shard, jobs)
    n = sum(r[0] for r in res)
    bad = [b for r in res for b in r[1]]
    ares = C.pool_map(array_dtype_part, jobs) + C.pool_map(boundary_roundtrips, jobs) + C.pool_map(value_twin_probe, jobs)
    n_arr = sum(r[0] for r in ares)
    arr_bad = [(oid, d_) for r in ares for p_, oid, d_ in r[1]]
    groups = {}
    for oid, detail in bad + arr_bad:
        groups.setdefault(oid.split("[")[0], []).append((oid, detail))
    for gname, items in sorted(groups.items()):
        oid, detail = items[0]
        kf = C.match_known("C04", oid, dict(detail=str(detail)))
        if kf:
            report.known_finding(oid, kf["what"] + f" ({len(items)} lattice points)")
        else:
            report.violation(oid, dict(kind="object-backend-symbolic-evaluation", failing_lattice_points=len(items), first=dict(obligation=oid, detail=detail),
                                       others=[o for o, _ in items[1:6]], replay_handler="vv.props.c04:replay_arr" if ("/array-dtypes/" in oid or "/boundary-roundtrip/" in oid or "/value-twins/" in oid) else "vv.props.c04:replay"), has_input=True)

    def post(rep, results, coverage):
        rep.violations += report.violations
        rep.known += report.known
        coverage["object_backend_symbolic_lattice"] = dict(obligations=n, failed=len(bad), exhaustive=True,
                                                           rule="20 source systems x 2 flavors x 40 to_<system> spellings x keyword subsets, to_Vector2D/3D/4D, to_2D/3D/4D, like x 20 systems; decided by term identity")
        coverage["array_dtype_lattice_bounded"] = dict(evaluations=n_arr, failed=len(arr_bad), how="BOUNDED run-time contracts: NumPy (3,), Awkward flat and jagged arrays with int64 / float32 "
                                                       "columns; imputed coordinate == keyword value exactly, stored coordinates keep values and dtype; boundary round trips; value twins (==-equal operands of different "
                                                       "type / sign of zero converted one after another: every result coordinate is bit for bit the live kernel's value for that operand); not counted as discharged obligations")
        coverage["obligations"] += n - len(bad) if False else n
        coverage["discharged"] += n - len(bad)
        coverage["by_backend"]["term identity on symbolic evaluation of the real object backend"] = n - len(bad)
    return lemma_prop.run("C04", __name__, ("x", "y", "rho", "phi", "z", "theta", "eta", "t", "tau"), post=post,
                          extra_assumptions=["NumPy / Awkward conversions go through the same methods and _wrap_result: covered by the bounded C03 check",
                                             "round trips are exact in real arithmetic on the representable domain; 'up to rounding' in float64 is not analysed"],
                          note="Round trips between every ordered pair of systems of equal dimension with the real accessor functions (Engine A), and the complete "
                               "symbolic lattice of to_* / to_VectorND / like on the object backend (term identity).")


def replay(prop, rp, path):
    import re
    oid = rp["first"]["obligation"]
    m = re.search(r"\[([a-z,]+)\|(mom|gen)\]", oid)
    n, bad = shard((tuple(m.group(1).split(",")), m.group(2) == "mom"))
    hit = [b for b in bad if b[0] == oid]
    for b in hit[:3]:
        print("still failing:", b)
    if hit:
        print(f"VIOLATION property={prop} replay={path}")
        return 1
    print("obligation holds on this tree")
    return 0


def replay_arr(prop, rp, path):
    import re
    oid = rp["first"]["obligation"]
    m = re.search(r"\[([a-z,]+)\|(mom|gen)[\]|]", oid)
    n, bad = (boundary_roundtrips if "/boundary-roundtrip/" in oid else value_twin_probe if "/value-twins/" in oid else array_dtype_part)((tuple(m.group(1).split(",")), m.group(2) == "mom"))
    hit = [b for b in bad if b[1] == oid]
    for b in hit[:3]:
        print("still failing:", b)
    if hit:
        print(f"VIOLATION property={prop} replay={path}")
        return 1
    print("contract holds on this tree")
    return 0
