"""C12 - equality, inequality and closeness are coherent (DESIGN 4/C12).  One lemma job per signature pair of the nine
comparison modules (4 + 36 + 144 pairs): negation, symmetry, reflexivity, equal => isclose, monotonicity in the tolerances,
and for same-system pairs the exact characterisation on the stored coordinates."""
import itertools

from ..lemmas import LemmaJob
from . import lemma_prop

MODS = ("equal", "not_equal", "isclose")
PK = {2: "planar", 3: "spatial", 4: "lorentz"}
AZ, LO, TE = ("xy", "rhophi"), ("z", "theta", "eta"), ("t", "tau")


def systems(dim):
    if dim == 2:
        return [(a,) for a in AZ]
    if dim == 3:
        return list(itertools.product(AZ, LO))
    return list(itertools.product(AZ, LO, TE))


def num(L, c):
    """a stored coordinate used as a number (angles and eta become their opaque values in symbolic mode)"""
    if L.mode == "sym":
        from ..symreal import A
        return A.of(c)
    return c


def implies(L, name, p, q):
    """p => q, posed conjunct by conjunct when both are conjunctions over the same compared coordinates (smaller queries;
    the component-wise implications entail the whole one)"""
    from ..symreal import B, f_imp
    pf, qf = p.f, q.f
    pc = pf[1] if pf[0] == "and" else (pf,)
    qc = qf[1] if qf[0] == "and" else (qf,)
    for i, y in enumerate(qc):
        # the matching conjunct of p (same compared coordinate) if there is an obvious one, else the whole of p
        cand = [x for x in pc if _same_atoms(x, y)]
        L.claims.append((f"{name}.{i}", f_imp(cand[0] if len(cand) == 1 else pf, y)))


def _same_atoms(x, y):
    """two conjuncts talk about the same compared pair when they mention the same non-tolerance variables"""
    from ..symreal import f_vars, CTX
    tol = {v for v, n in enumerate(CTX.names) if n in ("rtol", "atol", "drtol", "datol")}
    return (f_vars(x) - tol) == (f_vars(y) - tol)


def iff(L, name, p, q):
    """p <=> q posed as: p => each conjunct of q, and q => each conjunct of p"""
    from ..symreal import f_imp
    pf, qf = p.f, q.f
    if pf == qf:
        L.claims.append((name, ("const", True)))
        return
    pc = pf[1] if pf[0] == "and" else (pf,)
    qc = qf[1] if qf[0] == "and" else (qf,)
    for i, y in enumerate(qc):
        L.claims.append((f"{name}.fwd{i}", f_imp(pf, y)))
    for i, x in enumerate(pc):
        L.claims.append((f"{name}.bwd{i}", f_imp(qf, x)))


def l_pair(dim, s1, s2):
    pk = PK[dim]
    g1, g2 = ",".join(s1), ",".join(s2)

    def lemma(L):
        tc = L.case
        a = L.vec("a", g1, tau_case=tc.get("tau1", "nonneg"))
        b = L.vec("b", g2, tau_case=tc.get("tau2", "nonneg"))
        rtol, atol = L.real("rtol", "nonneg"), L.real("atol", "nonneg")
        dr, da = L.real("drtol", "nonneg"), L.real("datol", "nonneg")
        eq, ne, ic = L.fn(pk, "equal", f"{g1},{g2}"), L.fn(pk, "not_equal", f"{g1},{g2}"), L.fn(pk, "isclose", f"{g1},{g2}")
        e = eq(*a, *b)
        if L.mode == "sym":
            iff(L, "not_equal-is-negation", ~ne(*a, *b), e)
        else:
            L.holds("not_equal-is-negation", bool(ne(*a, *b)) == (not bool(e)))
        e_sw = L.fn(pk, "equal", f"{g2},{g1}")(*b, *a)
        if L.mode == "sym":
            iff(L, "equal-symmetric", e, e_sw)
        else:
            L.holds("equal-symmetric", bool(e) == bool(e_sw))
        c1 = ic(rtol, atol, False, *a, *b)
        c2 = ic(rtol + dr, atol + da, False, *a, *b)
        if L.mode == "sym":
            implies(L, "equal-implies-isclose", e, c1)
            implies(L, "isclose-monotone", c1, c2)
        else:
            L.holds("equal-implies-isclose", (not bool(e)) or bool(c1))
            L.holds("isclose-monotone", (not bool(c1)) or bool(c2))
        if s1 == s2:
            stored_eq, stored_close = None, None
            for x, y in zip(a, b):
                x, y = num(L, x), num(L, y)
                q = (x == y)
                d = L.abs(x - y) <= atol + rtol * L.abs(y)
                stored_eq = q if stored_eq is None else (stored_eq & q)
                stored_close = d if stored_close is None else (stored_close & d)
            if L.mode == "sym":
                iff(L, "same-system-equal-iff-stored-equal", e, stored_eq)
                iff(L, "same-system-isclose-iff-stored-close", c1, stored_close)
            else:
                L.holds("same-system-equal-iff-stored-equal", bool(e) == bool(stored_eq))
                L.holds("same-system-isclose-iff-stored-close", bool(c1) == bool(stored_close))
    return lemma


NAMES = {"xy": ("x", "y"), "rhophi": ("rho", "phi"), "z": ("z",), "theta": ("theta",), "eta": ("eta",), "t": ("t",), "tau": ("tau",)}
MODOF = {"x": "planar", "y": "planar", "rho": "planar", "phi": "planar", "z": "spatial", "theta": "spatial", "eta": "spatial", "t": "lorentz", "tau": "lorentz"}


def convert(coords, s_from, s_to):
    """the same vector re-expressed in system s_to by the library's own accessor kernels (at 60 digits): shared coordinates are
    copied, the others recomputed exactly as the mixed-system comparison kernels recompute them"""
    import importlib
    from .. import numlib as NL
    from ..views import BYNAME
    nf = [n for g in s_from for n in NAMES[g]]
    have = dict(zip(nf, coords))
    out = []
    for g in s_to:
        for n in NAMES[g]:
            if n in have:
                out.append(have[n])
                continue
            pk = MODOF[n]
            k = {"planar": 1, "spatial": 2, "lorentz": 3}[pk]
            m = importlib.import_module(f"vector._compute.{pk}.{n}")
            f = m.dispatch_map[tuple(BYNAME[x] for x in s_from[:k])][0]
            out.append(NL.run_real(f, list(coords[: k + 1])))
    return out


def structured_pairs(s1, s2):
    """correlated operand pairs for the numeric refuter: b is a re-expressed in s2 (and vice versa), then one coordinate nudged -
    the 'identical' and 'differ in exactly one component' strata of the statement, which independent random draws never reach"""
    def gen(vals):
        import mpmath as mp
        a, b, rest = list(vals[0]), list(vals[1]), list(vals[2:])
        out = []
        try:
            b2 = convert(a, s1, s2)
            out.append(("b := a re-expressed", [a, b2] + rest))
            for i in range(len(b2)):
                b3 = list(b2)
                b3[i] = b3[i] + mp.mpf(1) / 8
                out.append((f"b := a re-expressed, coordinate {i} + 1/8", [a, b3] + rest))
                if s1 == s2 and len(rest) >= 2 and abs(a[i]) != abs(b3[i]):
                    # tolerances chosen so that the difference lies between rtol*|a_i| and rtol*|b_i|: tells `rtol * |other|` from `rtol * |self|`
                    rt = (mp.mpf(1) / 8) / ((abs(a[i]) + abs(b3[i])) / 2)
                    out.append((f"b := a, coordinate {i} + 1/8, rtol between the two relative thresholds", [a, b3, rt, mp.mpf(0)] + rest[2:]))
                    out.append((f"a := b, coordinate {i} + 1/8, rtol between the two relative thresholds", [b3, a, rt, mp.mpf(0)] + rest[2:]))
        except Exception:
            pass
        try:
            a2 = convert(b, s2, s1)
            out.append(("a := b re-expressed", [a2, b] + rest))
            a3 = list(a2)
            a3[0] = a3[0] + mp.mpf(1) / 8
            out.append(("a := b re-expressed, coordinate 0 + 1/8", [a3, b] + rest))
        except Exception:
            pass
        return out
    return gen


def l_reflexive(dim, s):
    pk, g = PK[dim], ",".join(s)

    def lemma(L):
        a = L.vec("a", g, tau_case=L.case.get("tau1", "nonneg"))
        rtol, atol = L.real("rtol", "nonneg"), L.real("atol", "nonneg")
        L.holds("equal-reflexive", L.fn(pk, "equal", f"{g},{g}")(*a, *a))
        L.holds("isclose-reflexive", L.fn(pk, "isclose", f"{g},{g}")(rtol, atol, False, *a, *a))
        ne = L.fn(pk, "not_equal", f"{g},{g}")(*a, *a)
        L.holds("not_equal-irreflexive", ~ne if L.mode == "sym" else not bool(ne))
    return lemma


def l_same_plain(dim, s):
    """same-system comparisons are conditions on the *stored* numbers and nothing else: posed over ALL reals - no representability precondition
    (rho = 0 or negative, phi outside [-pi, pi], theta outside (0, pi), tau of any sign are all legal stored values of a comparison)"""
    pk, g = PK[dim], ",".join(s)
    names = [n for grp in s for n in NAMES[grp]]

    def lemma(L):
        a = [L.real(f"a_{n}") for n in names]
        b = [L.real(f"b_{n}") for n in names]
        rtol, atol = L.real("rtol", "nonneg"), L.real("atol", "nonneg")
        e = L.fn(pk, "equal", f"{g},{g}")(*a, *b)
        ne = L.fn(pk, "not_equal", f"{g},{g}")(*a, *b)
        c1 = L.fn(pk, "isclose", f"{g},{g}")(rtol, atol, False, *a, *b)
        stored_eq, stored_close = None, None
        for x, y in zip(a, b):
            q = (x == y)
            d = L.abs(x - y) <= atol + rtol * L.abs(y)
            stored_eq = q if stored_eq is None else (stored_eq & q)
            stored_close = d if stored_close is None else (stored_close & d)
        if L.mode == "sym":
            iff(L, "equal-iff-stored-equal", e, stored_eq)
            iff(L, "not_equal-iff-some-stored-coordinate-differs", ~ne, stored_eq)
            iff(L, "isclose-iff-stored-close", c1, stored_close)
        else:
            L.holds("equal-iff-stored-equal", bool(e) == bool(stored_eq))
            L.holds("not_equal-iff-some-stored-coordinate-differs", bool(ne) == (not bool(stored_eq)))
            L.holds("isclose-iff-stored-close", bool(c1) == bool(stored_close))
    return lemma


def plain_strata(n):
    """correlated points for the all-reals lemma: b = a; b = a with one coordinate nudged; coordinate j exactly zero in both operands (others differ)"""
    def gen(vals):
        import mpmath as mp
        a, b, rest = list(vals[:n]), list(vals[n:2 * n]), list(vals[2 * n:])
        out = [("b := a", a + a + rest)]
        for j in range(n):
            b2 = list(a); b2[j] = b2[j] + mp.mpf(1) / 8
            out.append((f"b := a, coordinate {j} + 1/8", a + b2 + rest))
            a3, b3 = list(a), list(b)
            a3[j] = b3[j] = mp.mpf(0)
            out.append((f"coordinate {j} exactly 0 in both operands", a3 + b3 + rest))
            a4 = list(a); b4 = list(a)
            a4[j] = b4[j] = mp.mpf(0)
            k = (j + 1) % n
            b4[k] = b4[k] + mp.mpf(1) / 4
            out.append((f"coordinate {j} exactly 0 in both operands, coordinate {k} differs", a4 + b4 + rest))
        return out
    return gen


def tau_cases(s1, s2=None):
    keys = []
    if "tau" in s1:
        keys.append("tau1")
    if s2 is not None and "tau" in s2:
        keys.append("tau2")
    if not keys:
        return [{}]
    return [dict(zip(keys, c)) for c in itertools.product(("nonneg", "neg"), repeat=len(keys))]


LEMMAS = []
for _d in (2, 3, 4):
    for _s in systems(_d):
        LEMMAS.append(LemmaJob("C12", f"{PK[_d]}[{','.join(_s)}]/reflexive", l_reflexive(_d, _s), cases=tau_cases(_s)))
    for _s in systems(_d):
        if _d == 4 and _s[:2] != ("xy", "z"):
            continue      # the 4D same-system kernels of the other storages compare through conversions (trigonometric / logarithmic functions of the stored
                          # numbers): not expressible over plain reals - they keep the stored-coordinate characterisation on the representable domain (l_pair)
        LEMMAS.append(LemmaJob("C12", f"{PK[_d]}[{','.join(_s)}]/same-system-all-reals", l_same_plain(_d, _s), structured=plain_strata(sum(len(NAMES[g_]) for g_ in _s))))
    for _s1 in systems(_d):
        for _s2 in systems(_d):
            LEMMAS.append(LemmaJob("C12", f"{PK[_d]}[{','.join(_s1)};{','.join(_s2)}]/coherence", l_pair(_d, _s1, _s2), cases=tau_cases(_s1, _s2), structured=structured_pairs(_s1, _s2)))


def main(argv):
    return lemma_prop.run("C12", __name__, MODS,
                          extra_assumptions=["vectors without NaN (statement); isclose is NumPy's documented formula |a-b| <= atol + rtol*|b| for finite values",
                                             "operators == != and numpy.equal/not_equal/isclose/allclose reach these kernels: object backend by the C05 glue obligations, "
                                             "NumPy/Awkward by the bounded C03 check"],
                          note="For every one of the 4+36+144 signature pairs: != is the negation of ==, == is symmetric and reflexive, == implies isclose, isclose "
                               "is monotone in rtol/atol and reflexive, and same-system comparisons are exactly the stored-coordinate conditions.")
