"""C06 - constructors accept the documented coordinate sets and store them verbatim (DESIGN 4/C06).

The quantifier of the statement is finite in the names (every subset of up to 5 of the 19 recognised coordinate names, plus
unknown names) and universal in the values.  The real constructors are executed on *every* such name set with opaque
symbolic values (objsym), so acceptance, class, coordinate system, flavor and verbatim storage are decided for all values
by parametricity; the specification (the grammar of valid sets) is written from the statement.  Array constructors
(vector.array / zip / Array) need real arrays: they are run on every name set with columns of distinct sentinel values
(bounded in the array shape only)."""
from __future__ import annotations

import itertools
import time

import numpy

from .. import common as C
from .. import objsym as O
from ..objsym import T

KNOWN = ["x", "px", "y", "py", "rho", "pt", "phi", "z", "pz", "theta", "eta", "t", "E", "e", "energy", "tau", "M", "m", "mass"]
GENERIC = {"x": "x", "px": "x", "y": "y", "py": "y", "rho": "rho", "pt": "rho", "phi": "phi", "z": "z", "pz": "z", "theta": "theta", "eta": "eta",
           "t": "t", "E": "t", "e": "t", "energy": "t", "tau": "tau", "M": "tau", "m": "tau", "mass": "tau"}
MOMENTUM_SPELLINGS = {"px", "py", "pt", "pz", "E", "e", "energy", "M", "m", "mass"}


def spec(names):
    """the grammar of the statement: returns None (invalid) or dict(dim, system, momentum, coord: supplied name)"""
    gen = {}
    for n in names:
        g = GENERIC.get(n)
        if g is None or g in gen:
            return None                       # unknown name, or the same coordinate spelled twice through synonyms
        gen[g] = n
    s = set(gen)
    az = {"x", "y"} if {"x", "y"} <= s else ({"rho", "phi"} if {"rho", "phi"} <= s else None)
    if az is None or (s & {"x", "y", "rho", "phi"}) != az:
        return None                           # missing partner or two azimuthal systems
    lo = s & {"z", "theta", "eta"}
    te = s & {"t", "tau"}
    if len(lo) > 1 or len(te) > 1 or (te and not lo):
        return None
    system = ("xy" if az == {"x", "y"} else "rhophi",) + tuple(lo) + tuple(te)
    return dict(dim=2 + len(lo) + len(te), system=system, momentum=bool(set(names) & MOMENTUM_SPELLINGS), coord=gen)


def all_name_sets(maxk):
    for k in range(0, maxk + 1):
        for c in itertools.combinations(KNOWN, k):
            yield c
            if k <= 2 or (k <= maxk - 1 and c[:1] in (("x",), ("rho",), ("px",))):
                yield c + ("foo",)


def shard(args):
    idx, nshards, maxk = args
    O.install()
    import vector
    ob = O.Obligations("C06")
    classes = {(2, False): vector.VectorObject2D, (3, False): vector.VectorObject3D, (4, False): vector.VectorObject4D,
               (2, True): vector.MomentumObject2D, (3, True): vector.MomentumObject3D, (4, True): vector.MomentumObject4D}
    for i, names in enumerate(all_name_sets(maxk)):
        if i % nshards != idx:
            continue
        sp = spec(names)
        vals = {n: T(f"v_{n}") for n in names}
        sid = "{" + ",".join(names) + "}"
        # ---- vector.obj
        try:
            v = vector.obj(**vals)
            acc = True
        except TypeError:
            acc, v = False, None
        except Exception as e:
            ob.check(f"obj/raises-only-TypeError{sid}", False, f"{type(e).__name__}: {e}")
            continue
        if sp is None:
            ob.check(f"obj/accepted-implies-valid{sid}", not acc, None if not acc else repr(v))
        else:
            ob.check(f"obj/valid-implies-accepted{sid}", acc)
            if acc:
                want = [vals[sp["coord"][g]] for g in O.names_of(sp["system"])]
                ob.check(f"obj/class-system-flavor{sid}", O.sysof(v) == sp["system"] and O.is_mom(v) == sp["momentum"] and len(O.sysof(v)) + 1 == sp["dim"],
                         dict(got=(O.sysof(v), O.is_mom(v)), expected=(sp["system"], sp["momentum"])))
                ob.check(f"obj/stored-verbatim{sid}", all(a is b for a, b in zip(O.coords(v), want)), repr(v))
        # ---- the object classes
        for (dim, mom), cls in classes.items():
            if not names:
                continue
            try:
                w = cls(**vals)
                acc2 = True
            except TypeError:
                acc2, w = False, None
            except Exception as e:
                ob.check(f"{cls.__name__}/raises-only-TypeError{sid}", False, f"{type(e).__name__}: {e}")
                continue
            ok_for_class = sp is not None and sp["dim"] == dim
            if not ok_for_class:
                ob.check(f"{cls.__name__}/accepted-implies-valid{sid}", not acc2, None if not acc2 else repr(w))
            else:
                ob.check(f"{cls.__name__}/valid-implies-accepted{sid}", acc2)
                if acc2:
                    want = [vals[sp["coord"][g]] for g in O.names_of(sp["system"])]
                    ob.check(f"{cls.__name__}/system-and-verbatim{sid}", O.sysof(w) == sp["system"] and all(a is b for a, b in zip(O.coords(w), want)) and type(w) is cls, repr(w))
                    if acc and mom == sp["momentum"]:
                        ob.check(f"{cls.__name__}/agrees-with-obj{sid}", type(w) is type(v) and O.sysof(w) == O.sysof(v) and all(a is b for a, b in zip(O.coords(w), O.coords(v))))
        # ---- acceptance does not depend on the values: the same decision when every name is given the *same* value object
        #      (an identity- or equality-based duplicate test would let `E=v, e=v` through) and for equal small integers
        if names:
            for vname, same in (("one-shared-object", T("shared")), ("equal-small-ints", 7), ("equal-floats", 2.5)):
                vs = {n: same for n in names}
                for cname, ctor, valid in [("obj", vector.obj, sp is not None)] + [(cls.__name__, cls, sp is not None and sp["dim"] == dim) for (dim, mom), cls in classes.items()]:
                    try:
                        ctor(**vs)
                        a2 = True
                    except TypeError:
                        a2 = False
                    except Exception as e:
                        ob.check(f"{cname}/raises-only-TypeError/{vname}{sid}", False, f"{type(e).__name__}: {e}")
                        continue
                    ob.check(f"{cname}/accepted-iff-valid/{vname}{sid}", a2 == valid, dict(accepted=a2, valid=valid))
        # ---- value types: bool and non-numbers rejected (on valid sets)
        if sp is not None:
            for badval in (True, "1.0", None, [1.0], 1 + 2j):
                for n in names[:2] + names[-1:]:
                    vv = dict(vals)
                    vv[n] = badval
                    ob.raises(f"obj/rejects-{type(badval).__name__}{sid}", lambda vv=vv: vector.obj(**vv))
                    cls = classes[(sp["dim"], sp["momentum"])]
                    ob.raises(f"{cls.__name__}/rejects-{type(badval).__name__}{sid}", lambda vv=vv, cls=cls: cls(**vv))
            for goodval in (3, 2.5, numpy.float64(1.5), numpy.int32(4), numpy.float32(0.5)):
                vv = {n: goodval for n in names}
                try:
                    u = vector.obj(**vv)
                    ob.check(f"obj/accepts-{type(goodval).__name__}{sid}", all(c is goodval for c in O.coords(u)))
                except Exception as e:
                    ob.check(f"obj/accepts-{type(goodval).__name__}{sid}", False, f"{type(e).__name__}: {e}")
    return ob.n, ob.bad


def powerset_shard(args):
    """accepted <=> valid for *every* subset of the 19 recognised names (2^19), vector.obj and (thorough tier) the six object classes"""
    idx, nshards, with_classes = args
    O.install()
    import vector
    ob = O.Obligations("C06")
    toks = {n: T(f"v_{n}") for n in KNOWN}
    classes = {(2, False): vector.VectorObject2D, (3, False): vector.VectorObject3D, (4, False): vector.VectorObject4D,
               (2, True): vector.MomentumObject2D, (3, True): vector.MomentumObject3D, (4, True): vector.MomentumObject4D}
    nk = len(KNOWN)
    for mask in range(idx, 1 << nk, nshards):
        if bin(mask).count("1") <= 5:
            continue            # covered in full detail by shard()
        names = tuple(KNOWN[i] for i in range(nk) if mask >> i & 1)
        sp = spec(names)
        vals = {n: toks[n] for n in names}
        try:
            v = vector.obj(**vals)
            acc = True
        except TypeError:
            acc = False
        except Exception as e:
            ob.check("obj/raises-only-TypeError{" + ",".join(names) + "}", False, f"{type(e).__name__}: {e}")
            continue
        ob.check("obj/accepted-iff-valid{" + ",".join(names) + "}", acc == (sp is not None), dict(accepted=acc, valid=sp is not None))
        if with_classes:
            for (dim, mom), cls in classes.items():
                try:
                    cls(**vals)
                    acc2 = True
                except TypeError:
                    acc2 = False
                except Exception as e:
                    ob.check(f"{cls.__name__}/raises-only-TypeError{{" + ",".join(names) + "}", False, f"{type(e).__name__}: {e}")
                    continue
                ob.check(f"{cls.__name__}/accepted-iff-valid{{" + ",".join(names) + "}", acc2 == (sp is not None and sp["dim"] == dim))
    return ob.n, ob.bad


def array_shard(args):
    """array constructors on every name set with columns of distinct sentinel values"""
    idx, nshards, maxk = args
    import numpy as np
    import vector
    try:
        import awkward as ak
    except Exception:
        ak = None
    ob = O.Obligations("C06")
    for i, names in enumerate(all_name_sets(maxk)):
        if i % nshards != idx or not names:
            continue
        sp = spec(names)
        sid = "{" + ",".join(names) + "}"
        cols = {n: np.array([10.0 * (j + 1) + 0.25, 10.0 * (j + 1) + 0.5]) for j, n in enumerate(names)}
        def structured():
            raw = np.zeros(2, dtype=[(n, float) for n in names])
            for n in names:
                raw[n] = cols[n]
            return vector.array(raw)
        def multifield(pad):
            def f():
                fields = ([("pad0", float)] if pad else []) + [(n, float) for n in reversed(names)] + ([("pad1", float)] if pad else [])
                wide = np.zeros(2, dtype=fields)
                for n in names:
                    wide[n] = cols[n]
                return vector.array(wide[list(names)])          # a multi-field view: same memory, explicit (non-packed / permuted) field offsets
            return f
        def structured_kw(**kw):
            def f():
                raw = np.zeros(2, dtype=[(n, float) for n in names])
                for n in names:
                    raw[n] = cols[n]
                return vector.array(raw, **kw)
            return f
        ctors = [("array", lambda: vector.array({n: cols[n] for n in names})), ("array(structured-ndarray)", structured),
                 ("array(structured-ndarray,copy=True)", structured_kw(copy=True)), ("array(structured-ndarray,order='C',ndmin=1)", structured_kw(order="C", ndmin=1)),
                 ("array(multi-field-view-of-reversed-record)", multifield(False)), ("array(multi-field-view-of-wider-record)", multifield(True)),
                 ("array(dtype)", lambda: vector.array(list(zip(*[cols[n] for n in names])), dtype=[(n, float) for n in names]))]
        if ak is not None:
            ctors += [("zip", lambda: vector.zip({n: cols[n] for n in names})),
                      ("Array", lambda: vector.Array([{n: float(cols[n][r]) for n in names} for r in range(2)])),
                      ("Array(ak.Array)", lambda: vector.Array(ak.Array([{n: float(cols[n][r]) for n in names} for r in range(2)]))),
                      ("zip(ak.Array-columns)", lambda: vector.zip({n: ak.Array(cols[n]) for n in names}))]
        ctors = [(c, f, cols) for c, f in ctors]
        # columns of different numeric dtypes given in non-canonical (reversed / rotated) key order
        DT = (np.int64, np.float64, np.float32, np.int32)
        mixed = {n: (np.array([10 * (j + 1) + 1, 10 * (j + 1) + 2], dtype=DT[j % 4]) if DT[j % 4] in (np.int64, np.int32)
                     else np.array([10.0 * (j + 1) + 0.25, 10.0 * (j + 1) + 0.5], dtype=DT[j % 4])) for j, n in enumerate(names)}
        rev, rot = list(reversed(names)), list(names[1:] + names[:1])
        ctors += [("array(reversed-keys,mixed-dtypes)", lambda: vector.array({n: mixed[n] for n in rev}), mixed),
                  ("array(rotated-keys,mixed-dtypes)", lambda: vector.array({n: mixed[n] for n in rot}), mixed)]
        if ak is not None:
            ctors += [("zip(reversed-keys,mixed-dtypes)", lambda: vector.zip({n: mixed[n] for n in rev}), mixed)]
        for cname, f, cols in ctors:
            try:
                with np.errstate(all="ignore"):
                    a = f()
                acc = True
            except Exception:
                acc, a = False, None
            if sp is not None:
                ob.check(f"{cname}/valid-implies-accepted{sid}", acc)
            if not acc:
                continue
            # whatever is accepted is interpreted as a valid subset of the given names, values unchanged
            try:
                isvec = isinstance(a, vector.Vector)
                if not isvec:
                    ob.check(f"{cname}/accepted-is-a-vector{sid}", sp is None, f"{type(a).__name__}")   # a plain array is acceptable for an invalid set
                    continue
                d = vector.dim(a)
                az = "xy" if hasattr(a.azimuthal, "x") or type(a.azimuthal).__name__.endswith("XY") else "rhophi"
                sysm = [az]
                if d >= 3:
                    sysm.append({"Z": "z", "Theta": "theta", "Eta": "eta"}[[k for k in ("Z", "Theta", "Eta") if type(a.longitudinal).__name__.endswith(k)][0]])
                if d == 4:
                    sysm.append("tau" if type(a.temporal).__name__.endswith("Tau") else "t")
                used = {}
                ok = True
                elems = list(a.azimuthal.elements) + (list(a.longitudinal.elements) if d >= 3 else []) + (list(a.temporal.elements) if d == 4 else [])
                for g, col in zip(O.names_of(tuple(sysm)), elems):
                    col = np.asarray(ak.to_numpy(col) if (ak is not None and isinstance(col, ak.Array)) else col)
                    src = [n for n in names if GENERIC.get(n) == g and np.array_equal(col, cols[n])]
                    if not src:
                        ok = False
                    else:
                        used[g] = src[0]
                sub = spec(tuple(used.values())) if ok else None
                ob.check(f"{cname}/accepted-is-valid-subset-with-values-unchanged{sid}", ok and sub is not None and sub["system"] == tuple(sysm),
                         dict(system=sysm, used=used))
                if sp is not None:
                    ob.check(f"{cname}/agrees-with-obj{sid}", tuple(sysm) == sp["system"] and isinstance(a, vector.Momentum) == sp["momentum"],
                             dict(got=(sysm, isinstance(a, vector.Momentum)), expected=(sp["system"], sp["momentum"])))
            except Exception as e:
                ob.check(f"{cname}/inspect{sid}", False, f"{type(e).__name__}: {str(e)[:200]}")
    return ob.n, ob.bad


def main(argv):
    report = C.Report("C06")
    t0 = time.time()
    maxk = 5
    amaxk = 5 if C.tier() == "thorough" else 4
    ns = 16
    res = C.pool_map(shard, [(i, ns, maxk) for i in range(ns)])
    ares = C.pool_map(array_shard, [(i, ns, amaxk) for i in range(ns)])
    pres = C.pool_map(powerset_shard, [(i, ns, C.tier() == "thorough") for i in range(ns)])
    n_pow = sum(r[0] for r in pres)
    n_obj, n_arr = sum(r[0] for r in res) + n_pow, sum(r[0] for r in ares)
    bad = [b for r in res + ares + pres for b in r[1]]
    bounded_ids = {b[0] for r in ares for b in r[1]}
    nsets = sum(1 for _ in all_name_sets(maxk))
    groups = {}
    for oid, detail in bad:
        groups.setdefault(oid.split("{")[0], []).append((oid, detail))
    nk = nk_b = 0
    for gname, items in sorted(groups.items()):
        shown = 0
        for oid, detail in items:
            kf = C.match_known("C06", oid, dict(detail=str(detail)))
            if kf:
                nk += 1
                nk_b += oid in bounded_ids
                if shown == 0:
                    report.known_finding(oid, kf["what"] + f" (group of {len(items)} name sets)")
                shown += 1
            else:
                if shown < 3:
                    report.violation(oid, dict(kind="constructor-name-set", name_set=oid.split("{")[1].rstrip("}").split(","), detail=detail, group_size=len(items),
                                               replay_handler="vv.props.c06:replay"), has_input=True)
                shown += 1
    n = n_obj + n_arr
    level = "proof" if not bad else "other"
    nbad_b = sum(1 for b in bad if b[0] in bounded_ids)
    # only the parametric part (real constructors on symbolic values) is counted as obligations / discharged; the array constructors run on
    # concrete 2-row sentinel columns: BOUNDED, reported separately (a failure there is still a violation)
    coverage = dict(obligations=n_obj - (nk - nk_b), discharged=n_obj - (len(bad) - nbad_b), obligations_posed=n_obj, known_findings=nk, name_sets=nsets, exhaustive=True,
                    by_backend={"real constructors executed on symbolic values, all name sets of <= 5 of the 19 names (+ unknown names)": n_obj},
                    bounded_array_constructors=dict(evaluations=n_arr, failed=nbad_b, label="BOUNDED run-time contracts - not counted in obligations / discharged",
                                                    bound=f"vector.array (two spellings), vector.zip, vector.Array on 2-row sentinel columns, all name sets of <= {amaxk} names"),
                    all_subsets_of_the_19_names=dict(obligations=n_pow, rule="accepted <=> valid for every one of the 2^19 subsets with more than 5 names (vector.obj; plus the six object classes in the thorough tier); "
                                                      "beyond the statement's quantifier (<= 5 names) - replaces the AST->z3 encoding of the design"),
                    checker_cmd=f"./check C06 --tier {C.tier()}",
                    trusted_base=["parametricity of the object constructors in the coordinate values (tokens are numbers.Real; a token cannot be inspected without raising)",
                                  "the grammar of valid coordinate sets in vv/props/c06.py::spec is the statement of C06", "CPython keyword-argument semantics"],
                    samples=[dict(name_set=["px", "y", "pz", "M"], expect="MomentumObject4D(xy,z,tau), values stored verbatim"), dict(name_set=["x", "y", "t"], expect="TypeError (temporal without longitudinal)")],
                    explanation=f"{nsets} name sets (every subset of <= 5 of the 19 recognised names, plus sets with an unknown name); vector.obj and the six object classes on symbolic values: "
                                f"accepted <=> valid, class/system/flavor, verbatim storage (object identity), agreement, rejection of bool/str/None/list/complex: {n_obj} obligations; "
                                f"vector.array (two spellings), vector.zip, vector.Array on sentinel columns: {n_arr} obligations; {len(bad)} failed.")
    C.write_evidence("C06", level, coverage, ["values: universally quantified for vector.obj and the object classes (parametricity); array constructors are exercised with 2-row sentinel columns (bounded)",
                                              "name sets larger than 5 names are outside the statement's quantifier and are not enumerated"], time.time() - t0, len(report.violations))
    print(f"C06: name_sets={nsets} obligations={n} failed={len(bad)} known={nk} wall={time.time() - t0:.1f}s")
    return report.exit_code()


def replay(prop, rp, path):
    import vector
    names = rp["name_set"]
    print("name set:", names, "spec:", spec(tuple(names)))
    try:
        print("vector.obj ->", vector.obj(**{n: 1.5 + i for i, n in enumerate(names)}))
    except Exception as e:
        print("vector.obj raises", type(e).__name__, str(e)[:100])
    ob_bad = shard((0, 1, 0))[1]
    O.install()
    # re-evaluate just this set
    import itertools as it
    global all_name_sets
    saved = all_name_sets
    all_name_sets = lambda maxk: iter([tuple(names)])
    try:
        bad = shard((0, 1, 5))[1] + array_shard((0, 1, 5))[1]
    finally:
        all_name_sets = saved
    hit = [b for b in bad if b[0] == rp["obligation"]]
    for b in hit[:3]:
        print("still failing:", b)
    if hit:
        print(f"VIOLATION property={prop} replay={path}")
        return 1
    print("obligation holds on this tree")
    return 0
