"""C15 - in-place updates of object vectors match their functional equivalents (DESIGN 4/C15).

Per-step contracts, discharged for an *arbitrary* pre-state satisfying the representation invariant (all 6 classes x 20
coordinate systems, symbolic coordinates - so for every value), for every setter (generic and momentum spellings) and for
+= -= *= /= with operands of every system and flavor; by induction over the length of the history the property holds for all
finite sequences.  The SymPy backend carries its own setters and _replace_data: same contracts with SymPy symbols."""
from __future__ import annotations

import time

import numpy

from .. import common as C
from .. import objsym as O
from ..objsym import T

GROUP = {"x": "azimuthal", "y": "azimuthal", "rho": "azimuthal", "phi": "azimuthal", "z": "longitudinal", "theta": "longitudinal",
         "eta": "longitudinal", "t": "temporal", "tau": "temporal"}
PARTNER = {"x": "y", "y": "x", "rho": "phi", "phi": "rho"}
SYS_OF = {"x": "xy", "y": "xy", "rho": "rhophi", "phi": "rhophi", "z": "z", "theta": "theta", "eta": "eta", "t": "t", "tau": "tau"}
MOMSET = {"px": "x", "py": "y", "pt": "rho", "pz": "z", "E": "t", "e": "t", "energy": "t", "M": "tau", "m": "tau", "mass": "tau"}
GROUPS_OF_DIM = {2: ("azimuthal",), 3: ("azimuthal", "longitudinal"), 4: ("azimuthal", "longitudinal", "temporal")}
NEED = {"azimuthal": 2, "longitudinal": 3, "temporal": 4}


def invariant(v, cls, d):
    """representation invariant: same class, every slot holds a coordinate object of an admissible class for its group"""
    import vector.backends.object as OB
    ok = type(v) is cls
    ok = ok and isinstance(v.azimuthal, (OB.AzimuthalObjectXY, OB.AzimuthalObjectRhoPhi))
    if d >= 3:
        ok = ok and isinstance(v.longitudinal, (OB.LongitudinalObjectZ, OB.LongitudinalObjectTheta, OB.LongitudinalObjectEta))
    if d == 4:
        ok = ok and isinstance(v.temporal, (OB.TemporalObjectT, OB.TemporalObjectTau))
    return ok


def _props(d, mom):
    from .. import engined as E
    ps = list(E.PLANAR_PROPS) + (list(E.SPATIAL_PROPS) if d >= 3 else []) + (list(E.LORENTZ_PROPS) if d == 4 else [])
    if mom:
        for k in range(2, d + 1):
            ps += list(E.MOM_PROPS[k])
        ps += [p for p in ("transverse_energy", "transverse_energy2", "transverse_mass", "transverse_mass2", "et", "et2", "mt", "mt2", "Et", "Et2", "Mt", "Mt2") if d == 4]
    return list(dict.fromkeys(ps))


def _read_all(v, d, mom):
    for p in _props(d, mom):
        try:
            with numpy.errstate(all="ignore"):
                getattr(v, p)
        except Exception:
            pass


def _stale(v, d, mom):
    """properties of v that differ from those of a vector freshly built from v's current coordinate objects"""
    twin = type(v)(**{g: getattr(v, g) for g in GROUPS_OF_DIM[d]})
    out = []
    for p in _props(d, mom):
        try:
            with numpy.errstate(all="ignore"):
                a, b = getattr(v, p), getattr(twin, p)
        except Exception:
            continue
        if not O.same(a, b):
            out.append((p, repr(a)[:60], repr(b)[:60]))
    return out


def shard(args):
    s1, mom1 = args
    O.install()
    ob = O.Obligations("C15")
    d = len(s1) + 1
    sid = f"[{','.join(s1)}|{'mom' if mom1 else 'gen'}]"
    setters = [(n, n) for n, g in GROUP.items() if NEED[g] <= d]
    if mom1:
        setters += [(m, g) for m, g in MOMSET.items() if NEED[GROUP[g]] <= d]
    for spelled, name in setters:
        v = O.make(s1, mom1, "1")
        cls, ident = type(v), id(v)
        pre = {n: None for n in GROUP}
        with numpy.errstate(all="ignore"):
            partner = PARTNER.get(name)
            pre_partner = getattr(v, partner) if partner else None
            slots = {g: getattr(v, g) for g in GROUPS_OF_DIM[d]}
            _read_all(v, d, mom1)          # every derived quantity has been read once before the update (anything remembered on the instance is now stale)
            try:
                setattr(v, spelled, T("new"))
            except Exception as e:
                ob.check(f"setter/{spelled}/defined{sid}", False, f"{type(e).__name__}: {e}")
                continue
            stale = _stale(v, d, mom1)
            ob.check(f"setter/{spelled}/every-property-is-that-of-the-new-state{sid}", not stale, dict(stale=stale[:4]))
            ob.check(f"setter/{spelled}/invariant-class-identity{sid}", invariant(v, cls, d) and id(v) == ident)
            ob.check(f"setter/{spelled}/reads-back{sid}", O.same(getattr(v, name), T("new")) and O.same(getattr(v, spelled), T("new")), repr(getattr(v, name))[:100])
            if partner:
                ob.check(f"setter/{spelled}/partner-unchanged{sid}", O.same(getattr(v, partner), pre_partner), dict(got=repr(getattr(v, partner))[:120], expected=repr(pre_partner)[:120]))
            for g, obj_ in slots.items():
                if g != GROUP[name]:
                    ob.check(f"setter/{spelled}/other-group-untouched/{g}{sid}", getattr(v, g) is obj_)
            gi = {"azimuthal": 0, "longitudinal": 1, "temporal": 2}[GROUP[name]]
            ob.check(f"setter/{spelled}/group-system{sid}", O.sysof(v)[gi] == SYS_OF[name] and all(O.sysof(v)[i] == s1[i] for i in range(d - 1) if i != gi), O.sysof(v))
    # ---- in-place operators
    k = T("k")
    for s2 in O.systems():
        d2 = len(s2) + 1
        for mom2 in (False, True):
            w = O.make(s2, mom2, "2")
            pid = f"{sid}x[{','.join(s2)}|{'mom' if mom2 else 'gen'}]"
            for opname, inplace, functional in (("+=", lambda a, b: a.__iadd__(b), lambda a, b: a + b), ("-=", lambda a, b: a.__isub__(b), lambda a, b: a - b)):
                v = O.make(s1, mom1, "1")
                cls, ident, sysb = type(v), id(v), O.sysof(v)
                slots = {g: getattr(v, g) for g in GROUPS_OF_DIM[d]}
                with numpy.errstate(all="ignore"):
                    if d != d2:
                        try:
                            inplace(v, w)
                            ob.check(f"inplace/{opname}/raises-for-different-dimension{pid}", False, "no exception")
                        except TypeError:
                            ob.check(f"inplace/{opname}/unchanged-after-raise{pid}", all(getattr(v, g) is o for g, o in slots.items()) and type(v) is cls)
                        except Exception as e:
                            ob.check(f"inplace/{opname}/raises-TypeError{pid}", False, f"{type(e).__name__}: {e}")
                        continue
                    _read_all(v, d, mom1)
                    try:
                        fun = functional(O.make(s1, mom1, "1"), w)
                        r = inplace(v, w)
                    except Exception as e:
                        ob.check(f"inplace/{opname}/defined{pid}", False, f"{type(e).__name__}: {e}")
                        continue
                    ob.check(f"inplace/{opname}/identity-class-system{pid}", r is v and id(v) == ident and type(v) is cls and O.sysof(v) == sysb and invariant(v, cls, d),
                             dict(cls=type(v).__name__, sys=O.sysof(v)))
                    stale = _stale(v, d, mom1)
                    ob.check(f"inplace/{opname}/every-property-is-that-of-the-new-state{pid}", not stale, dict(stale=stale[:4]))
                    # the post-state is the functional result expressed in the target's own coordinate system
                    exp = [getattr(fun, n) for n in O.names_of(s1)]
                    ob.check(f"inplace/{opname}/equals-functional{pid}", O.same(O.coords(v), exp), dict(got=[repr(c)[:90] for c in O.coords(v)], expected=[repr(c)[:90] for c in exp]))
    for opname, inplace, functional in (("*=", lambda a: a.__imul__(k), lambda a: a * k), ("/=", lambda a: a.__itruediv__(k), lambda a: a / k)):
        v = O.make(s1, mom1, "1")
        cls, ident, sysb = type(v), id(v), O.sysof(v)
        with numpy.errstate(all="ignore"):
            try:
                fun = functional(O.make(s1, mom1, "1"))
                r = inplace(v)
            except Exception as e:
                ob.check(f"inplace/{opname}/defined{sid}", False, f"{type(e).__name__}: {e}")
                continue
            ob.check(f"inplace/{opname}/identity-class-system{sid}", r is v and id(v) == ident and type(v) is cls and O.sysof(v) == sysb)
            exp = [getattr(fun, n) for n in O.names_of(s1)]
            ob.check(f"inplace/{opname}/equals-functional{sid}", O.same(O.coords(v), exp), dict(got=[repr(c)[:90] for c in O.coords(v)], expected=[repr(c)[:90] for c in exp]))
    # v *= w and v /= w with a *vector* w raise TypeError exactly as v * w and v / w do, and leave v unchanged
    for opname, inplace, functional in (("*=", lambda a, w: a.__imul__(w), lambda a, w: a * w), ("/=", lambda a, w: a.__itruediv__(w), lambda a, w: a / w)):
        for wsys in (s1, ("xy", "z", "t")[:max(1, len(s1))] if len(s1) > 1 else ("xy",)):
            v, w = O.make(s1, mom1, "1"), O.make(tuple(wsys), mom1, "2")
            slots = {g: getattr(v, g) for g in GROUPS_OF_DIM[d]}
            pid = f"{sid}x[{','.join(wsys)}]"
            try:
                functional(O.make(s1, mom1, "1"), w)
                functional_raises = False
            except TypeError:
                functional_raises = True
            except Exception:
                functional_raises = True
            try:
                with numpy.errstate(all="ignore"):
                    inplace(v, w)
                raised = False
            except Exception:
                raised = True
            ob.check(f"inplace/{opname}/vector-operand-raises-like-functional-form{pid}", raised == functional_raises, dict(inplace_raises=raised, functional_raises=functional_raises))
            if functional_raises:
                ob.check(f"inplace/{opname}/unchanged-after-vector-operand{pid}", all(getattr(v, g) is o for g, o in slots.items()))
    # an in-place operation that raises leaves the object unchanged (non-vector operand)
    for bad_operand in ("text", None, [1, 2]):
        v = O.make(s1, mom1, "1")
        slots = {g: getattr(v, g) for g in GROUPS_OF_DIM[d]}
        try:
            v += bad_operand
            ob.check(f"inplace/+=/raises-for-non-vector{sid}", False, f"no exception for {bad_operand!r}")
        except Exception:
            ob.check(f"inplace/+=/unchanged-after-raise-non-vector{sid}", all(getattr(v, g) is o for g, o in slots.items()))
    return ob.n, ob.bad


def replace_data_control_flow(ob):
    """inside _replace_data the only raise precedes the first store (so a raising in-place operation writes nothing)"""
    import ast
    import inspect
    import vector.backends.object as OB
    import vector.backends.sympy as SB
    for modname, mod in (("object", OB), ("sympy", SB)):
        src = inspect.getsource(mod._replace_data)
        fn = ast.parse(src).body[0]
        first_store = None
        raises_after = []
        for node in ast.walk(fn):
            if isinstance(node, ast.Assign) and any(isinstance(t, ast.Attribute) for t in node.targets):
                first_store = node.lineno if first_store is None else min(first_store, node.lineno)
        for node in ast.walk(fn):
            if isinstance(node, ast.Raise) and first_store is not None and node.lineno > first_store:
                # AssertionError branches for impossible coordinate classes are allowed: they are unreachable under the invariant
                txt = ast.unparse(node)
                if "AssertionError" not in txt:
                    raises_after.append(txt)
        ob.check(f"replace_data/{modname}/raise-precedes-first-store", not raises_after, raises_after)


SIBLINGS = [("rotateZ", lambda v: v.rotateZ(0.3)), ("scale2D", lambda v: v.scale2D(2)), ("neg2D", lambda v: v.neg2D), ("to_Vector4D", lambda v: v.to_Vector4D()),
            ("to_Vector3D", lambda v: v.to_Vector3D()), ("rotateX", lambda v: v.rotateX(0.2)), ("to_xy", lambda v: v.to_xy()), ("to_rhophi", lambda v: v.to_rhophi())]


def sympy_part(ob):
    import sympy
    import vector
    for s1 in O.systems():
        names = O.names_of(s1)
        d = len(s1) + 1
        for mom in (False, True):
            cls = {(2, False): vector.VectorSympy2D, (3, False): vector.VectorSympy3D, (4, False): vector.VectorSympy4D,
                   (2, True): vector.MomentumSympy2D, (3, True): vector.MomentumSympy3D, (4, True): vector.MomentumSympy4D}[(d, mom)]
            sid = f"[{','.join(s1)}|{'mom' if mom else 'gen'}]"

            def mk():
                return cls(**{n: sympy.Symbol(n + "1", real=True) for n in names})
            new = sympy.Symbol("new", real=True)
            setters = [(n, n) for n, g in GROUP.items() if NEED[g] <= d] + ([(m, g) for m, g in MOMSET.items() if NEED[GROUP[g]] <= d] if mom else [])
            for spelled, name in setters:
                v = mk()
                if not hasattr(type(v), spelled) or getattr(type(v), spelled).fset is None:
                    ob.check(f"sympy/setter/{spelled}/exists{sid}", False, "no setter")
                    continue
                partner = PARTNER.get(name)
                pre_partner = getattr(v, partner) if partner else None
                slots = {g: getattr(v, g) for g in GROUPS_OF_DIM[d]}
                try:
                    setattr(v, spelled, new)
                except Exception as e:
                    ob.check(f"sympy/setter/{spelled}/defined{sid}", False, f"{type(e).__name__}: {e}")
                    continue
                ob.check(f"sympy/setter/{spelled}/reads-back{sid}", getattr(v, name) == new and type(v) is cls)
                if partner:
                    ob.check(f"sympy/setter/{spelled}/partner-unchanged{sid}", sympy.simplify(getattr(v, partner) - pre_partner) == 0 or getattr(v, partner) == pre_partner)
                for g, obj_ in slots.items():
                    if g != GROUP[name]:
                        ob.check(f"sympy/setter/{spelled}/other-group-untouched/{g}{sid}", getattr(v, g) is obj_)
                # frame of the setter: it writes the receiver's own state only - a vector derived earlier from the receiver (results may share
                # coordinate objects with their operands) keeps every stored coordinate, and so does the operand when the derived vector is assigned to
                for dname, derive in SIBLINGS:
                    try:
                        v0 = mk()
                        w0 = derive(v0)
                        if w0 is v0:
                            continue
                        for tgt, other, who in ((w0, v0, "operand"), (v0, w0, "derived")):
                            if not hasattr(type(tgt), spelled):
                                continue
                            pre = [(type(getattr(other, g)).__name__, tuple(getattr(other, g).elements)) for g in ("azimuthal", "longitudinal", "temporal") if hasattr(other, g)]
                            setattr(tgt, spelled, new)
                            post = [(type(getattr(other, g)).__name__, tuple(getattr(other, g).elements)) for g in ("azimuthal", "longitudinal", "temporal") if hasattr(other, g)]
                            ob.check(f"sympy/setter/{spelled}/{who}-of-{dname}-unchanged{sid}", pre == post, dict(before=str(pre)[:200], after=str(post)[:200]))
                            v0 = mk(); w0 = derive(v0)
                    except Exception:
                        continue
            sympy_inplace(lambda oid, ok, d=None: ob.check(oid, ok, d), cls, s1, mom)


def sympy_inplace(check, cls, s1, mom, prefix="sympy/inplace"):
    """SymPy backend: after a += b, a -= b, a *= k, a /= k the object is the same object of the same class and system and *every stored
    coordinate* is the corresponding coordinate of the functional result (expression identity, else numeric agreement at regular points)"""
    import random
    import sympy
    from .. import arrays as AR
    names = O.names_of(s1)
    sid = f"[{','.join(s1)}|{'mom' if mom else 'gen'}]"
    rng = random.Random(hash((tuple(s1), mom)) & 0xFFFFF)
    points = []
    for _ in range(3):
        p1, p2 = AR.one(s1, rng), AR.one(s1, rng)
        sub = {sympy.Symbol(n + "1", real=True): v_ for n, v_ in p1.items()}
        sub.update({sympy.Symbol(n + "2", real=True): v_ for n, v_ in p2.items()})
        points.append(sub)

    def same(a, b):
        if a == b:
            return True
        try:
            for sub in points:
                x, y = complex(sympy.N(a.subs(sub), 30)), complex(sympy.N(b.subs(sub), 30))
                if not (abs(x.imag) < 1e-12 and abs(y.imag) < 1e-12 and AR.close(x.real, y.real, 1e-12, 1e-12)):
                    return False
            return True
        except Exception:
            return False

    def mk(tag):
        return cls(**{n: sympy.Symbol(n + tag, real=True) for n in names})
    ops_ = [("+=", lambda a, b: a.__iadd__(b), lambda a, b: a + b), ("-=", lambda a, b: a.__isub__(b), lambda a, b: a - b),
            ("*=2.5", lambda a, b: a.__imul__(2.5), lambda a, b: a * 2.5), ("*=-1.5", lambda a, b: a.__imul__(-1.5), lambda a, b: a * -1.5),
            ("/=-4", lambda a, b: a.__itruediv__(-4.0), lambda a, b: a / -4.0)]
    for opname, inplace, functional in ops_:
        v, w = mk("1"), mk("2")
        try:
            fun = functional(mk("1"), w)
            ident, sysb = id(v), AR.sysof(v)
            r = inplace(v, w)
        except Exception as e:
            check(f"{prefix}/{opname}/defined{sid}", False, f"{type(e).__name__}: {str(e)[:150]}")
            continue
        check(f"{prefix}/{opname}/identity-class-system{sid}", r is v and id(v) == ident and type(v) is cls and AR.sysof(v) == sysb, dict(system=AR.sysof(v)))
        for n in names:
            try:
                check(f"{prefix}/{opname}/stored-{n}-equals-functional{sid}", same(getattr(v, n), getattr(fun, n)), dict(got=str(getattr(v, n))[:120], expected=str(getattr(fun, n))[:120]))
            except Exception as e:
                check(f"{prefix}/{opname}/stored-{n}-equals-functional{sid}", False, f"{type(e).__name__}: {str(e)[:150]}")


def histories_shard(seed):
    ob = O.Obligations("C15")
    histories(ob, seed)
    return ob.n, ob.bad


def histories(ob, seed):
    """bounded cross-check of the induction: random histories of 4 steps; after each step the object equals (term identity) the
    one built functionally from the pre-state getters"""
    import random
    rng = random.Random(seed)
    O.install()
    for i in range(60):
        s1 = rng.choice(list(O.systems()))
        d = len(s1) + 1
        mom = rng.random() < 0.5
        v = O.make(s1, mom, "1")
        cls, ident = type(v), id(v)
        for step in range(4):
            kind = rng.choice(["set", "iadd", "imul"])
            with numpy.errstate(all="ignore"):
                if kind == "set":
                    name = rng.choice([n for n, g in GROUP.items() if NEED[g] <= d])
                    partner = PARTNER.get(name)
                    pp = getattr(v, partner) if partner else None
                    setattr(v, name, T(f"s{i}_{step}"))
                    okk = O.same(getattr(v, name), T(f"s{i}_{step}")) and (partner is None or O.same(getattr(v, partner), pp))
                elif kind == "iadd":
                    s2 = rng.choice([s for s in O.systems() if len(s) == len(s1)])
                    w = O.make(s2, rng.random() < 0.5, f"w{i}_{step}")
                    names = O.names_of(O.sysof(v))
                    import copy
                    twin = type(v)(**{("azimuthal", "longitudinal", "temporal")[j]: getattr(v, ("azimuthal", "longitudinal", "temporal")[j]) for j in range(d - 1)})
                    fun = twin + w
                    v += w
                    okk = O.same(O.coords(v), [getattr(fun, n) for n in names])
                else:
                    names = O.names_of(O.sysof(v))
                    twin = type(v)(**{("azimuthal", "longitudinal", "temporal")[j]: getattr(v, ("azimuthal", "longitudinal", "temporal")[j]) for j in range(d - 1)})
                    fun = twin * T("k")
                    v *= T("k")
                    okk = O.same(O.coords(v), [getattr(fun, n) for n in names])
            ob.check(f"history/{i}/step{step}/{kind}", okk and type(v) is cls and id(v) == ident)


def main(argv):
    report = C.Report("C15")
    t0 = time.time()
    ob = O.Obligations("C15")
    replace_data_control_flow(ob)
    sympy_part(ob)
    n_sym = ob.n
    hres = O.concolic_map(histories_shard, [C.seed()])[0]
    n_hist = hres[0]
    ob.n += n_hist
    ob.bad += hres[1]
    bounded_ids = {b[0] for b in hres[1]}
    res = O.concolic_map(shard, [(s, m) for s in O.systems() for m in (False, True)])
    n_concolic = sum(1 for r in res + [hres] if r[-1])
    n_obj = sum(r[0] for r in res)
    n = ob.n + n_obj
    bad = ob.bad + [b for r in res for b in r[1]]
    groups = {}
    for oid, detail in bad:
        groups.setdefault(oid.split("[")[0], []).append((oid, detail))
    nk = 0
    for gname, items in sorted(groups.items()):
        oid, detail = items[0]
        kf = C.match_known("C15", oid, dict(detail=str(detail)))
        if kf:
            nk += len(items)
            report.known_finding(oid, kf["what"])
        else:
            report.violation(oid, dict(kind="object-backend-symbolic-evaluation", failing_lattice_points=len(items), first=dict(obligation=oid, detail=detail),
                                       others=[o for o, _ in items[1:6]], replay_handler="vv.props.c15:replay"), has_input=True)
    level = "proof" if not bad else "other"
    nbad_b = sum(1 for b in bad if b[0] in bounded_ids)
    n_p = n - n_hist         # the random histories are a bounded cross-check of the induction: reported separately, not counted
    coverage = dict(obligations=n_p - nk, discharged=n_p - (len(bad) - nbad_b), obligations_posed=n_p, known_findings=nk,
                    by_backend={"term identity / object identity (object backend on symbolic coordinates)": n_obj, "SymPy backend (symbolic expressions)": n_sym - 2,
                                "control-flow check of _replace_data (AST)": 2},
                    concolic_fallback=dict(shards_re_run_with_concrete_values=n_concolic, valuations=list(O.VALUATIONS),
                                           note="0 = every obligation decided parametrically (the code never inspects a coordinate value); otherwise the shards whose code inspects a value were "
                                                "re-run along the paths of these concrete valuations (BOUNDED)"),
                    bounded_random_histories=dict(evaluations=n_hist, failed=nbad_b, label="BOUNDED cross-check of the induction - not counted in obligations / discharged"),
                    exhaustive=True, checker_cmd=f"./check C15 --tier {C.tier()}",
                    trusted_base=["parametricity of the object backend in its coordinate values", "induction over the length of the history from per-step contracts under the representation invariant", "CPython"],
                    samples=[dict(obligation="C15/setter/rho/partner-unchanged[xy,z,t|gen]", status="phi reads as the pre-state phi term"),
                             dict(obligation="C15/inplace/+=/equals-functional[rhophi,theta|mom]x[xy,z|gen]", status="same terms as (v + w) expressed in (rho, phi, theta)")],
                    explanation=f"per-step contracts for every setter (generic and momentum spellings) and += -= *= /= from an arbitrary pre-state: {n_obj} obligations over 40 pre-state "
                                f"shapes x 40 operand shapes on the object backend, {n_sym - 2} on the SymPy backend, control flow of _replace_data, {n_hist} steps of random histories; {len(bad)} failed.")
    C.write_evidence("C15", level, coverage, ["values universally quantified by parametricity; histories by induction (each step contract assumes only the representation invariant)",
                                              "view-equality of the in-place result with the functional result rests on the accessor contracts proved by C01/C02 (conversion back into the target's system)"],
                     time.time() - t0, len(report.violations))
    print(f"C15: obligations={n} failed={len(bad)} known={nk} wall={time.time() - t0:.1f}s")
    return report.exit_code()


def replay(prop, rp, path):
    import re
    oid = rp["first"]["obligation"]
    m = re.search(r"\[([a-z,]+)\|(mom|gen)\]", oid)
    if oid.startswith("C15/history/"):
        bad = O._concolic_worker((__name__, "histories_shard", rp.get("seed", C.seed())))[1]
    elif m and not oid.startswith("C15/sympy"):
        bad = O._concolic_worker((__name__, "shard", (tuple(m.group(1).split(",")), m.group(2) == "mom")))[1]
    else:
        ob = O.Obligations("C15"); replace_data_control_flow(ob); sympy_part(ob); bad = ob.bad
    hit = [b for b in bad if b[0] == oid]
    for b in hit[:3]:
        print("still failing:", b)
    if hit:
        print(f"VIOLATION property={prop} replay={path}")
        return 1
    print("obligation holds on this tree")
    return 0
