"""C17 - reductions of vector arrays are component-wise Cartesian reductions (DESIGN 4/C17).  BOUNDED (run-time contracts).

Contract on numpy.sum / .sum() / numpy.count_nonzero on NumPy vector arrays and ak.sum / ak.count / ak.count_nonzero on
Awkward vector arrays: the Cartesian components of the result are the sums of the elements' Cartesian components (taken from
the object backend, whose accessors carry the proved C01/C02 contracts), axis and keepdims honoured, flavor kept, empty lists
sum to the zero vector.  numpy.sum / ak.sum themselves are trusted."""
from __future__ import annotations

import math
import random
import time

import numpy as np

from .. import arrays as AR
from .. import common as C
from .. import engined as E

CART = {2: ("x", "y"), 3: ("x", "y", "z"), 4: ("x", "y", "z", "t")}


def cart_of(struct, system, mom):
    """nested structure of Cartesian component tuples from the object backend"""
    def f(e):
        o = AR.obj_of(system, mom, e)
        return tuple(float(getattr(o, n)) for n in CART[len(system) + 1])
    return AR.struct_map(struct, f)


def np_reduce(nested, axis, keepdims, dim):
    a = np.array(nested, dtype=float)          # shape (..., dim)
    if axis is None:
        r = a.reshape(-1, dim).sum(axis=0)
        if keepdims:
            r = r.reshape((1,) * (a.ndim - 1) + (dim,))
        return r
    return a.sum(axis=axis if axis >= 0 else axis - 1, keepdims=keepdims)


def one_hot_patterns(system):
    """stored coordinates of: the zero vector, a vector with only a transverse part, (z storage) only a z part, (4D) only a time part"""
    def mk(rho, z, t):
        e = {}
        if system[0] == "xy":
            e["x"], e["y"] = float(rho), 0.0
        else:
            e["rho"], e["phi"] = float(rho), 0.3 if rho else 0.0
        if len(system) > 1:
            if system[1] == "z":
                e["z"] = float(z)
            elif system[1] == "theta":
                e["theta"] = 1.0 if not rho else math.pi / 2       # rho = 0: z = 0 whatever theta is
            else:
                e["eta"] = 0.0
        if len(system) > 2:
            if system[2] == "t":
                e["t"] = float(t)
            else:
                # tau with t^2 = copysign(tau^2, tau) + |p|^2: t = 0 needs tau = -|p|
                mag = math.hypot(rho, z if system[1] == "z" else 0.0)
                e["tau"] = float(t) if t else -mag
        return e
    pats = [mk(0, 0, 0), mk(2, 0, 0)]
    if len(system) > 1 and system[1] == "theta" and not (len(system) > 2 and system[2] == "tau"):
        # (with tau storage the time component needs |p| = rho / sin(theta) = 0 / 0: the zero vector is not representable there)
        z0 = mk(0, 0, 0)
        z0["theta"] = 0.0          # the zero vector as to_rhophitheta() / to_xytheta() store it
        pats.insert(1, z0)
    if len(system) > 1 and system[1] == "z":
        pats.append(mk(0, 5, 0))
    if len(system) > 2 and system[2] == "t":
        pats.append(mk(0, 0, 3))
    if len(system) > 1 and system[1] == "theta":
        pats = [p for p in pats if not (p.get("theta") == math.pi / 2)]    # theta = pi/2 gives z ~ 6e-17, not an exact zero
    while len(pats) < 3:
        pats.append(mk(0, 0, 0))
    return pats


def shard(args):
    import vector
    system, mom, seed = args
    F = E.Fails()
    d = len(system) + 1
    names = CART[d]
    tag0 = f"[{','.join(system)}|{'mom' if mom else 'gen'}"
    rng = random.Random(hash((seed, system, mom)) & 0xFFFFFFF)
    # ---------------- NumPy
    for layout, shape in (("np(3)", (3,)), ("np(2,2)", (2, 2)), ("np(2,3)", (2, 3))):
        if layout == "np(2,3)":
            struct = [[AR.one(system, rng) for _ in range(3)] for _ in range(2)]
            key = (lambda n: AR.MOM.get(n, n)) if mom else (lambda n: n)
            v = vector.array({key(n): np.array(AR.struct_map(struct, lambda e, n=n: e[n])) for n in AR.names_of(system)})
        else:
            v, struct = AR.build(layout, system, mom, rng)
        ref = cart_of(struct, system, mom)
        axes = [None] + list(range(len(shape))) + [-1]
        for axis in axes:
            for keepdims in (False, True):
                for spelled, f in (("numpy.sum", lambda: np.sum(v, axis=axis, keepdims=keepdims)), (".sum()", lambda: v.sum(axis=axis, keepdims=keepdims)),
                                   ("numpy.sum(positional-axis)", lambda: np.sum(v, axis, keepdims=keepdims)), (".sum(positional-axis)", lambda: v.sum(axis, keepdims=keepdims))):
                    tag = f"{spelled}(axis={axis},keepdims={keepdims}){tag0}|{layout}]"
                    snap = AR.snapshot(v)
                    try:
                        with np.errstate(all="ignore"):
                            r = f()
                    except Exception as e:
                        F.check("C17", f"defined/{tag}", False, f"{type(e).__name__}: {str(e)[:150]}")
                        continue
                    exp = np_reduce(ref, axis, keepdims, d)
                    try:
                        got = np.stack([np.asarray(getattr(r, n), dtype=float) for n in names], axis=-1)
                        F.check("C17", f"cartesian-sum/{tag}", got.shape == exp.shape and np.allclose(got, exp, rtol=1e-9, atol=1e-9), dict(got=str(got.tolist())[:150], expected=str(exp.tolist())[:150]))
                    except Exception as e:
                        F.check("C17", f"cartesian-sum/{tag}", False, f"{type(e).__name__}: {str(e)[:150]}")
                    F.check("C17", f"flavor-kept/{tag}", isinstance(r, vector.Momentum) == mom, type(r).__name__)
                    F.check("C17", f"operand-unchanged/{tag}", AR.snapshot(v) == snap)
        # count_nonzero: elements that are not the zero vector
        key = (lambda n: AR.MOM.get(n, n)) if mom else (lambda n: n)
        cols = {}
        zero_pos = [1]
        for n in AR.names_of(system):
            col = np.array([AR.one(system, rng)[n] for _ in range(4)])
            cols[key(n)] = col
        for zp in zero_pos:
            for n in AR.names_of(system):
                cols[key(n)][zp] = 0.0 if n not in ("theta",) else 0.0
        vz = vector.array(cols)
        try:
            with np.errstate(all="ignore"):
                cn = np.count_nonzero(vz)
                objs = [AR.obj_of(system, mom, {n: float(cols[key(n)][i]) for n in AR.names_of(system)}) for i in range(4)]
                exp = sum(1 for o in objs if any(float(getattr(o, c)) != 0.0 for c in names))
            F.check("C17", f"count_nonzero{tag0}|np(4)]", int(cn) == exp, dict(got=int(cn), expected=exp))
            nz_flags = [any(float(getattr(o, c)) != 0.0 for c in names) for o in objs]
            v22 = vz.reshape(2, 2)
            ref22 = np.array(nz_flags).reshape(2, 2)
            for ax in (0, 1, -1):
                for form, g in (("keyword", lambda: np.count_nonzero(v22, axis=ax)), ("positional", lambda: np.count_nonzero(v22, ax))):
                    with np.errstate(all="ignore"):
                        got = np.asarray(g())
                    F.check("C17", f"count_nonzero(axis={ax},{form}){tag0}|np(2,2)]", got.tolist() == np.count_nonzero(ref22, axis=ax).tolist(), dict(got=got.tolist()))
        except Exception as e:
            F.check("C17", f"count_nonzero{tag0}|np(4)]", False, f"{type(e).__name__}: {str(e)[:150]}")
    # ---------------- Awkward
    if AR.ak is not None:
        ak = AR.ak
        struct = [[AR.one(system, rng), AR.one(system, rng)], [], [AR.one(system, rng)], None, [AR.one(system, rng), AR.one(system, rng), AR.one(system, rng)]]
        key = (lambda n: AR.MOM.get(n, n)) if mom else (lambda n: n)
        a = vector.Array(AR.struct_map(struct, lambda e: {key(n): e[n] for n in AR.names_of(system)}))
        ref = cart_of(struct, system, mom)
        for axis in (1, -1):
            tag = f"ak.sum(axis={axis}){tag0}|ak-jagged-with-empty-and-missing]"
            try:
                with np.errstate(all="ignore"):
                    r = ak.sum(a, axis=axis)
                for j, n in enumerate(names):
                    got = ak.to_list(getattr(r, n))
                    exp = [None if row is None else math.fsum(c[j] for c in row) for row in ref]
                    F.check("C17", f"cartesian-sum/{n}/{tag}", AR.close(got, exp), dict(got=str(got)[:150], expected=str(exp)[:150]))
                F.check("C17", f"flavor-kept/{tag}", isinstance(r, vector.Momentum) == mom, str(ak.type(r))[:80])
                F.check("C17", f"is-vector/{tag}", isinstance(r, vector.Vector))
            except Exception as e:
                F.check("C17", f"defined/{tag}", False, f"{type(e).__name__}: {str(e)[:150]}")
        for fn, nm in ((ak.count, "ak.count"), (ak.count_nonzero, "ak.count_nonzero")):
            tag = f"{nm}(axis=1){tag0}|ak-jagged-with-empty-and-missing]"
            try:
                with np.errstate(all="ignore"):
                    got = ak.to_list(fn(a, axis=1))
                exp = [None if row is None else len(row) for row in ref]      # all sampled vectors are non-zero
                F.check("C17", f"{tag}", got == exp, dict(got=got, expected=exp))
            except Exception as e:
                F.check("C17", f"defined/{tag}", False, f"{type(e).__name__}: {str(e)[:150]}")
        # general form: for every axis / keepdims / mask_identity and for deeper and option-typed layouts, the Cartesian components of
        # ak.sum(vectors) are ak.sum of the arrays of the elements' Cartesian components (ak.sum on plain numbers is the trusted library)
        deep = [[[AR.one(system, rng)], [AR.one(system, rng), AR.one(system, rng)]], [], [[], [AR.one(system, rng)]]]
        optrec = [[AR.one(system, rng), None], [], [None, AR.one(system, rng), AR.one(system, rng)]]
        for lname, st, axes in (("ak-jagged-with-empty-and-missing", struct, (0, 1, -1)), ("ak-nested-3", deep, (1, 2, -1, -2)), ("ak-option-records", optrec, (1, -1))):
            try:
                arr = vector.Array(AR.struct_map(st, lambda e: {key(n): e[n] for n in AR.names_of(system)}))
                refc = cart_of(st, system, mom)
                def pick(x, j):
                    return None if x is None else (x[j] if isinstance(x, tuple) else [pick(y, j) for y in x])
                comps = [ak.Array(pick(refc, j)) for j in range(d)]
            except Exception as e:
                F.check("C17", f"defined/build{tag0}|{lname}]", False, f"{type(e).__name__}: {str(e)[:150]}")
                continue
            # ak.count / ak.count_nonzero of the vectors (all sampled vectors are non-zero) are those of a Cartesian component column: missing
            # *elements* are not counted, whatever level the option type sits at
            for cfn, cnm in ((ak.count, "ak.count"), (ak.count_nonzero, "ak.count_nonzero")):
                for axis in axes + (None,):
                    for keepdims in (False, True):
                        if axis is None and keepdims:
                            continue
                        tag = f"{cnm}(axis={axis},keepdims={keepdims}){tag0}|{lname}]"
                        try:
                            exp = ak.to_list(cfn(comps[0], axis=axis, keepdims=keepdims))
                        except Exception:
                            continue
                        try:
                            with np.errstate(all="ignore"):
                                got = ak.to_list(cfn(arr, axis=axis, keepdims=keepdims))
                            F.check("C17", f"counts-elements/{tag}", got == exp, dict(got=str(got)[:120], expected=str(exp)[:120]))
                        except Exception as e:
                            F.check("C17", f"defined/{tag}", False, f"{type(e).__name__}: {str(e)[:150]}")
            for axis in axes:
                for keepdims in (False, True):
                    for mask_identity in (False, True):
                        tag = f"ak.sum(axis={axis},keepdims={keepdims},mask_identity={mask_identity}){tag0}|{lname}]"
                        try:
                            with np.errstate(all="ignore"):
                                exp = [ak.to_list(ak.sum(c, axis=axis, keepdims=keepdims, mask_identity=mask_identity)) for c in comps]
                        except Exception:
                            continue      # the reduction itself is not defined for this layout / axis
                        try:
                            with np.errstate(all="ignore"):
                                r = ak.sum(arr, axis=axis, keepdims=keepdims, mask_identity=mask_identity)
                            for j, n in enumerate(names):
                                F.check("C17", f"cartesian-sum/{n}/{tag}", AR.close(ak.to_list(getattr(r, n)), exp[j]), dict(got=str(ak.to_list(getattr(r, n)))[:120], expected=str(exp[j])[:120]))
                            F.check("C17", f"flavor-kept/{tag}", isinstance(r, vector.Momentum) == mom, str(ak.type(r))[:80])
                        except Exception as e:
                            F.check("C17", f"defined/{tag}", False, f"{type(e).__name__}: {str(e)[:150]}")
        # count_nonzero on vectors with a single non-zero Cartesian component (and the zero vector), where the system can hold them
        pats = one_hot_patterns(system)
        objs = [AR.obj_of(system, mom, e) for e in pats]
        with np.errstate(all="ignore"):
            nz = [any(float(getattr(o, c)) != 0.0 for c in names) for o in objs]
        # the zero vector is zero by construction, whatever way it is stored (rho = 0 with theta = 0 or 1, eta = 0): an absolute expectation,
        # independent of the accessors under test
        for i_, e_ in enumerate(pats):
            if all(e_.get(k_, 0.0) == 0.0 for k_ in ("x", "y", "rho", "z", "t", "tau")):
                nz[i_] = False
        rows = [pats[:2], pats[2:], [pats[0]], []]
        exp = [sum(nz[:2]), sum(nz[2:]), int(nz[0]), 0]
        try:
            ja = vector.Array([[{key(n): e[n] for n in AR.names_of(system)} for e in r] for r in rows])
            with np.errstate(all="ignore"):
                got = ak.to_list(ak.count_nonzero(ja, axis=1))
            F.check("C17", f"ak.count_nonzero(axis=1)/single-component-vectors{tag0}|ak-jagged]", got == exp, dict(got=got, expected=exp, rows=str(rows)[:200]))
        except Exception as e:
            F.check("C17", f"ak.count_nonzero(axis=1)/single-component-vectors{tag0}|ak-jagged]", False, f"{type(e).__name__}: {str(e)[:150]}")
        try:
            na = vector.array({key(n): np.array([e[n] for e in pats]) for n in AR.names_of(system)})
            with np.errstate(all="ignore"):
                got = int(np.count_nonzero(na))
                got0 = np.count_nonzero(na.reshape(1, -1), axis=1).tolist()
            F.check("C17", f"numpy.count_nonzero/single-component-vectors{tag0}|np]", got == sum(nz) and got0 == [sum(nz)], dict(got=(got, got0), expected=sum(nz), rows=str(pats)[:200]))
        except Exception as e:
            F.check("C17", f"numpy.count_nonzero/single-component-vectors{tag0}|np]", False, f"{type(e).__name__}: {str(e)[:150]}")
        flat = vector.Array([{key(n): e[n] for n in AR.names_of(system)} for e in (struct[0] + struct[4])])
        try:
            with np.errstate(all="ignore"):
                r = ak.sum(flat, axis=0) if False else ak.sum(flat, axis=-1)
            refc = cart_of(struct[0] + struct[4], system, mom)
            for j, n in enumerate(names):
                F.check("C17", f"cartesian-sum/{n}/ak.sum(axis=-1){tag0}|ak-flat]", AR.close(float(getattr(r, n)), math.fsum(c[j] for c in refc)))
        except Exception as e:
            F.check("C17", f"defined/ak.sum(axis=-1){tag0}|ak-flat]", False, f"{type(e).__name__}: {str(e)[:150]}")
    return F.n, F.bad


def main(argv):
    report = C.Report("C17")
    t0 = time.time()
    jobs = [(s, m, C.seed()) for s in AR.systems() for m in (False, True)]
    res = C.pool_map(shard, jobs)
    n = sum(r[0] for r in res)
    bad = [(oid, d) for r in res for p, oid, d in r[1]]
    # NumPy backend, for every value: the reducers executed on object-dtype arrays of opaque tokens (vv/npsym.py)
    from .. import npsym, objsym
    shapes = ((3,), (2, 2), (2, 3)) if C.tier() == "quick" else ((3,), (2, 2), (2, 3), (2, 1, 2))
    sres = C.pool_map(npsym.shard, [(s_, m_, shapes, ("reduce",)) for s_ in objsym.systems() for m_ in (False, True)])
    n_sym = sum(r[0] for r in sres)
    sym_bad = [(oid, d) for r in sres for p, oid, d in r[1]]
    sym_skipped = sum(r[2] for r in sres)
    bad += sym_bad
    n += n_sym
    groups = {}
    for oid, detail in bad:
        groups.setdefault(oid.split("[")[0], []).append((oid, detail))
    nk = 0
    for gname, items in sorted(groups.items()):
        oid, detail = items[0]
        kf = C.match_known("C17", oid, dict(detail=str(detail)))
        if kf:
            nk += len(items)
            report.known_finding(oid, kf["what"])
        else:
            report.violation(oid, dict(kind="engineD-runtime-contract", failing_lattice_points=len(items), first=dict(obligation=oid, detail=detail), others=[o for o, _ in items[1:6]],
                                       replay_handler="vv.props.c17:replay"), has_input=True)
    bound = "NumPy shapes (3,), (2,2), (2,3) x axis in {None, 0, 1, -1} x keepdims x {numpy.sum, .sum()}; Awkward: jagged with an empty and a missing list, flat; 20 systems x 2 flavors"
    coverage = dict(evaluations=n, distinct_nontrivial=len(jobs) * 10, rule="one evaluation = one reduction contract (Cartesian sums / shape / flavor / operand unchanged / counts) at one lattice point",
                    failed=len(bad), known_findings=nk, bound=bound, exhaustive=False,
                    symbolic_numpy=dict(obligations=n_sym, failed=len(sym_bad), not_evaluable=sym_skipped, shapes=[list(x) for x in shapes],
                                        label="numpy.sum / .sum() of the real NumPy backend executed on object-dtype arrays of opaque tokens: every Cartesian component of the result is "
                                              "term-identical to NumPy's own sum of the elements' Cartesian components as the object backend computes them (all values; shapes, axes and "
                                              "keepdims enumerated); full reductions to a 0-d result are not evaluable on tokens and stay bounded"),
                    samples=[dict(call="numpy.sum(axis=0,keepdims=True)[rhophi,eta,tau|mom|np(2,3)]", contract="x,y,z,t of the result == column sums of the elements' x,y,z,t; shape (1,3)")],
                    explanation=f"BOUNDED run-time contracts on the reducers of the NumPy and Awkward backends (numpy.sum / ak.sum / count functions trusted): {n} evaluations over [{bound}]; {len(bad)} failed.")
    C.write_evidence("C17", "other", coverage, ["numpy.sum, ak.sum, ak.count, ak.count_nonzero are trusted library functions", "bounded: only the enumerated shapes, axes and layouts",
                                                "the per-element Cartesian components come from the object backend (accessor contracts proved by C01/C02)"], time.time() - t0, len(report.violations))
    print(f"C17: contract_evaluations={n} failed={len(bad)} known={nk} wall={time.time() - t0:.1f}s")
    return report.exit_code()


def replay(prop, rp, path):
    import re
    oid = rp["first"]["obligation"]
    m = re.search(r"\[([a-z,]+)\|(mom|gen)", oid)
    if "/symbolic-numpy/" in oid:
        from .. import npsym
        r = C.pool_map(npsym.shard, [(tuple(m.group(1).split(",")), m.group(2) == "mom", ((3,), (2, 2), (2, 3), (2, 1, 2)), ("reduce",))] * 2)[0]
        bad = r[1]
    else:
        n, bad = shard((tuple(m.group(1).split(",")), m.group(2) == "mom", rp.get("seed", 0)))[:2]
    hit = [b for b in bad if b[1] == oid]
    for b in hit[:2]:
        print("still failing:", b)
    if hit:
        print(f"VIOLATION property={prop} replay={path}")
        return 1
    print("contract holds on this tree")
    return 0
