"""C16 - operations never modify their operands (DESIGN 4/C16).

(a) Engine C: frame clauses `assigns \\nothing` w.r.t. operands for every function in src/vector, discharged by conservative
    effect analysis of the AST (all inputs, syntactic); the explicit in-place API is the only allow-listed writer;
(b) object backend on symbolic coordinates: after every call of the C05 lattice the operands' slots are the same objects;
(c) bounded: bit-for-bit snapshots of NumPy / Awkward operands around every call of the Engine D lattice."""
from __future__ import annotations

import os
import time

from .. import common as C
from .. import effects as EF
from .. import engined as E

OPERAND_KINDS = {"store-through-parameter", "augmented-assignment-on-operand", "augmented-assignment-through-parameter", "mutator-call-on-operand",
                 "delete-through-parameter", "out-keyword"}
INPLACE_API = {"__iadd__", "__isub__", "__imul__", "__itruediv__", "__setitem__", "_setitem", "_replace_data"}
CONSTRUCTION = {"__init__", "__new__", "__setstate__", "__array_finalize__", "__post_init__"}
# private helpers that consume a container created by their (only) callers; the call sites are checked below
CONSUMES_FRESH_ARGUMENT = {
    "_gather_coordinates": ("vector/backends/object.py", "called only by vector.obj with the freshly built dict `generic_coordinates`"),
    "_check_names": ("vector/backends/awkward_constructors.py", "called only with `fields.copy()` / `list(arrays.keys())`"),
    "obj": ("vector/backends/object.py", "`coordinates` is the **kwargs dict of the call itself (fresh per call)"),
}


def allowed(site, setters):
    fn = site["function"].split(".")[-1]
    kind, text = site["kind"], site["text"]
    if fn in INPLACE_API or site["function"] in setters:
        return "explicit in-place API (statement of C16)"
    if fn in CONSTRUCTION:
        # the object under construction may set its own attributes / consume its own **kwargs; nothing deeper (self.a.b = ...)
        tgt = text.split(" = ")[0]
        if tgt.startswith(("self.", "cls.")) and tgt.count(".") == 1 and "[" not in tgt:
            return "construction of the object itself"
        if tgt.startswith("kwargs[") or text.startswith("kwargs.pop") or text.startswith("self.__dict__.update"):
            return "construction: own **kwargs / own __dict__ (fresh per call)"
        return None
    if site["where"].startswith("vector/backends/_numba") or site["where"].startswith("vector/backends/numba_"):
        return "Numba typing/lowering internals (C07 is not applicable); not reachable from the interpreted API"
    if fn in CONSUMES_FRESH_ARGUMENT and site["where"].startswith(CONSUMES_FRESH_ARGUMENT[fn][0]):
        return CONSUMES_FRESH_ARGUMENT[fn][1]
    if site["function"] == "Array" and site["where"].startswith("vector/backends/awkward_constructors.py") and text.startswith("x.behavior = "):
        return ("vector.Array: `x` ranges over the columns returned by _check_names(akarray, ...), each created by subscripting the ak.Array `akarray[name]`, "
                "which yields a new high-level ak.Array object per field; rebinding its .behavior attribute does not write the operand (call sites / construction checked below)")
    if site["function"].endswith("awkward_transform.__call__.transformer") and text.startswith("options.pop('broadcast_parameters_rule'"):
        return ("ak.transform callback: `options` is the per-call options dict that awkward's broadcasting machinery builds and hands to the callback "
                "(library-internal state of that one call, never an operand or a caller-visible object)")
    why = EF.consumes_callers_own_container(site) or EF.per_call_helper_object(site)
    if why:
        return why
    if fn == "__array_ufunc__" and text.startswith("output["):
        return "NumPy ufunc protocol: fills the arrays the caller passed explicitly as out= (writing them is what the caller asked for)"
    if kind == "out-keyword" and fn == "sum":
        return "VectorNumpy.sum forwards the caller's explicit out= argument (NumPy reduction signature): writing it is what the caller asked for"
    return None


def find_setters(src_root):
    import ast
    out = set()
    for dp, dn, fns in os.walk(src_root):
        for f in fns:
            if f.endswith(".py"):
                tree = ast.parse(open(os.path.join(dp, f)).read())
                for cls in ast.walk(tree):
                    if isinstance(cls, ast.ClassDef):
                        for fn in cls.body:
                            if isinstance(fn, ast.FunctionDef) and any(isinstance(d, ast.Attribute) and d.attr == "setter" for d in fn.decorator_list):
                                out.add(f"{cls.name}.{fn.name}")
    return out


def fresh_call_sites(src_root, ob_check):
    """the helpers allowed to consume their argument are only ever called with freshly created containers"""
    import ast
    for helper, argpos, ok_exprs in (("_gather_coordinates", 3, {"generic_coordinates"}), ("_check_names", 1, {"fields.copy()", "list(arrays.keys())"})):
        for dp, dn, fns in os.walk(src_root):
            for f in fns:
                if not f.endswith(".py"):
                    continue
                tree = ast.parse(open(os.path.join(dp, f)).read())
                for node in ast.walk(tree):
                    if isinstance(node, ast.Call) and isinstance(node.func, ast.Name) and node.func.id == helper and len(node.args) > argpos:
                        txt = ast.unparse(node.args[argpos])
                        ob_check(f"static/fresh-argument/{helper}@{f}:{node.lineno}", txt in ok_exprs, f"argument `{txt}` is not a freshly created container")


def check_names_columns(src_root, check):
    """_check_names builds its result list only from subscripts of `projectable` (so, for an ak.Array, from new objects)"""
    import ast
    tree = ast.parse(open(os.path.join(src_root, "backends", "awkward_constructors.py")).read())
    for fn in ast.walk(tree):
        if isinstance(fn, ast.FunctionDef) and fn.name == "_check_names":
            for node in ast.walk(fn):
                if isinstance(node, ast.Call) and isinstance(node.func, ast.Attribute) and node.func.attr in ("append", "extend") and ast.unparse(node.func.value) == "columns":
                    elems = node.args[0].elts if isinstance(node.args[0], (ast.List, ast.Tuple)) else [node.args[0]]
                    for e in elems:
                        ok = isinstance(e, ast.Subscript) and ast.unparse(e.value) == "projectable"
                        check(f"static/check_names-columns-are-subscripts@{node.lineno}", ok, ast.unparse(e))


def object_slots_worker(half):
    F = E.Fails()
    object_slots(F, half)
    return F.n, F.bad


def object_slots(F, half=None):
    """object backend: the operands' coordinate slots are the same objects after every method call (symbolic coordinates)"""
    from .. import objsym as O
    from ..objsym import T
    import numpy
    O.install()
    for i_, s1 in enumerate(O.systems()):
        if half is not None and i_ % 2 != half:
            continue
        for mom in (False, True):
            v = O.make(s1, mom, "1")
            d = len(s1) + 1
            slots = {g: getattr(v, g) for g in ("azimuthal", "longitudinal", "temporal")[: d - 1]}
            elems = [e for g in slots.values() for e in g.elements]
            w = O.make(s1, not mom, "2")
            wslots = {g: getattr(w, g) for g in ("azimuthal", "longitudinal", "temporal")[: d - 1]}
            calls = [lambda: v.unit(), lambda: v.scale(T("k")), lambda: -v, lambda: v.rotateZ(T("a")), lambda: v.to_Vector2D(), lambda: v.to_Vector4D(), lambda: v.to_xy(),
                     lambda: v.add(w), lambda: v - w, lambda: v.dot(w), lambda: v == w, lambda: v.isclose(w), lambda: v.deltaphi(w), lambda: abs(v), lambda: v ** 2,
                     lambda: v.like(w), lambda: v * T("k"), lambda: v.rho, lambda: v.phi]
            if d >= 3:
                calls += [lambda: v.rotateX(T("a")), lambda: v.rotate_euler(T("a"), T("b"), T("c")), lambda: v.theta, lambda: v.eta, lambda: v.to_rhophieta()]
            if d == 4:
                calls += [lambda: v.boostX(beta=T("b")), lambda: v.boost_p4(w), lambda: v.to_beta3(), lambda: v.tau, lambda: v.is_timelike(T("t"))]
            with numpy.errstate(all="ignore"):
                for i, c in enumerate(calls):
                    try:
                        c()
                    except Exception:
                        pass
                    ok = all(getattr(v, g) is o for g, o in slots.items()) and all(getattr(w, g) is o for g, o in wslots.items()) and \
                        all(a is b for a, b in zip(elems, [e for g in slots.values() for e in g.elements]))
                    F.check("C16", f"object-slots-unchanged/call{i}[{','.join(s1)}|{'mom' if mom else 'gen'}]", ok)


def dtype_probe(F):
    """NumPy shares the dtype object between a view and its base: viewing a plain array as a momentum array must not rename the base's fields"""
    import numpy as np
    import vector
    base = np.zeros(3, dtype=[("px", float), ("py", float)])
    before = base.dtype.names
    base.view(vector.MomentumNumpy2D)
    F.check("C16", "probe/view-as-MomentumNumpy-keeps-base-dtype-names", base.dtype.names == before, dict(before=before, after=base.dtype.names))
    dt = np.dtype([("px", float), ("py", float), ("pz", float)])
    vector.array([(1.0, 2.0, 3.0)], dtype=dt)
    F.check("C16", "probe/array-constructor-keeps-caller-dtype-names", dt.names == ("px", "py", "pz"), dict(after=dt.names))


def _need_setter(w, cname):
    p = getattr(type(w), cname, None)
    if not isinstance(p, property) or p.fset is None:
        raise AttributeError(cname)


def aliasing_probe(F):
    """Results may share coordinate sub-objects with their operands; an in-place update of the *result* must not reach the operand
    (SymPy and object backends, every system and flavor, two-step histories: derive, then update the derived vector in place)"""
    import numpy as np
    import sympy
    import vector
    from .. import arrays as AR
    import vector.backends.object as OB

    def snap(v):
        return tuple((type(getattr(v, g)).__name__, tuple(getattr(v, g).elements)) for g in ("azimuthal", "longitudinal", "temporal") if hasattr(v, g))
    derive = [("rotateZ", lambda v: v.rotateZ(0.3)), ("scale2D", lambda v: v.scale2D(2.0)), ("neg2D", lambda v: v.neg2D), ("rotateX", lambda v: v.rotateX(0.2)), ("scale3D", lambda v: v.scale3D(2.0)),
              ("to_Vector3D", lambda v: v.to_Vector3D()), ("to_Vector4D", lambda v: v.to_Vector4D()), ("+v", lambda v: +v), ("to_xy", lambda v: v.to_xy()), ("to_rhophi", lambda v: v.to_rhophi())]
    update = [("+=", lambda w, u: w.__iadd__(u)), ("-=", lambda w, u: w.__isub__(u)), ("*=", lambda w, u: w.__imul__(2.0)), ("/=", lambda w, u: w.__itruediv__(4.0))]
    # ... and the coordinate setters (generic and momentum spellings) of the derived vector
    for cname in ("x", "y", "rho", "phi", "z", "theta", "eta", "t", "tau", "px", "pt", "pz", "E", "mass"):
        update.append((f"set-{cname}", lambda w, u, cname=cname: (_need_setter(w, cname), setattr(w, cname, 0.625))))
    for s in AR.systems():
        names = AR.names_of(s)
        d = len(s) + 1
        for mom in (False, True):
            key = (lambda n: AR.MOM.get(n, n)) if mom else (lambda n: n)
            scls = {(2, False): vector.VectorSympy2D, (3, False): vector.VectorSympy3D, (4, False): vector.VectorSympy4D,
                    (2, True): vector.MomentumSympy2D, (3, True): vector.MomentumSympy3D, (4, True): vector.MomentumSympy4D}[(d, mom)]
            makers = [("sympy", lambda tag: scls(**{key(n): sympy.Symbol(n + tag, real=True) for n in names})),
                      ("object", lambda tag: vector.obj(**{key(n): 1.5 + 0.25 * i + (0.5 if tag == "2" else 0.0) for i, n in enumerate(names)}))]
            for bname, mk in makers:
                for dname, dv in derive:
                    for uname, up in update:
                        v, u = mk("1"), mk("2")
                        tag = f"{dname};{uname}[{','.join(s)}|{'mom' if mom else 'gen'}|{bname}]"
                        try:
                            with np.errstate(all="ignore"):
                                w = dv(v)
                                if w is v:
                                    continue        # the operation handed back the operand itself: updating it in place is the explicit in-place API
                                if vector.dim(w) != vector.dim(u):
                                    u = dv(u)
                                before = snap(v)
                                up(w, u)
                        except Exception:
                            continue
                        F.check("C16", f"probe/operand-unchanged-by-in-place-update-of-a-derived-vector/{tag}", snap(v) == before, dict(before=str(before)[:160], after=str(snap(v))[:160]))


def nonfinite_probe_worker(job):
    """bounded: operands holding NaN, +-inf and -0.0 are bit-for-bit unchanged by every unary operation and reduction (NumPy, Awkward)"""
    import numpy as np
    import vector
    from .. import arrays as AR
    try:
        import awkward as ak
    except Exception:
        ak = None
    system, mom = job
    F = E.Fails()
    names = AR.names_of(system)
    d = len(system) + 1
    key = (lambda n: AR.MOM.get(n, n)) if mom else (lambda n: n)
    special = [float("nan"), float("inf"), float("-inf"), -0.0, 1.5]
    cols = {key(n): np.array(special[i % 5:] + special[:i % 5]) for i, n in enumerate(names)}
    tag = f"[{','.join(system)}|{'mom' if mom else 'gen'}]"
    ops_ = E.unary_ops(d, mom) + [("numpy.sum", lambda v: np.sum(v)), (".sum(axis=0)", lambda v: v.sum(axis=0)), (".sum(keepdims)", lambda v: v.sum(axis=0, keepdims=True)),
                                  ("numpy.count_nonzero", lambda v: np.count_nonzero(v))]
    arr = vector.array({k: c.copy() for k, c in cols.items()})
    for name, f in ops_:
        before = (arr.tobytes(), arr.dtype, arr.shape, type(arr))
        try:
            with np.errstate(all="ignore"):
                f(arr)
        except Exception:
            pass
        F.check("C16", f"probe/nonfinite-operand-unchanged/{name}{tag}|numpy", (arr.tobytes(), arr.dtype, arr.shape, type(arr)) == before)
        if arr.tobytes() != before[0]:
            arr = vector.array({k: c.copy() for k, c in cols.items()})
    if ak is not None:
        k_arr = vector.Array(ak.Array({k: c.copy() for k, c in cols.items()}))
        ops_k = E.unary_ops(d, mom) + [("ak.sum", lambda v: ak.sum(v, axis=0)), ("ak.count_nonzero", lambda v: ak.count_nonzero(v, axis=0))]
        snap = lambda a: tuple((fld, ak.to_numpy(a[fld]).tobytes()) for fld in ak.fields(a)) + (str(ak.type(a)),)
        for name, f in ops_k:
            if name.startswith("numpy."):
                continue
            before = snap(k_arr)
            try:
                with np.errstate(all="ignore"):
                    f(k_arr)
            except Exception:
                pass
            F.check("C16", f"probe/nonfinite-operand-unchanged/{name}{tag}|awkward", snap(k_arr) == before)
    return F.n, F.bad


def main(argv):
    report = C.Report("C16")
    t0 = time.time()
    src = os.path.join(C.REPO, "src", "vector")
    sites, nfun, nfiles = EF.analyse_tree(src)
    setters = find_setters(src)
    F = E.Fails()
    static = [s for s in sites if s["kind"] in OPERAND_KINDS]
    nallowed = 0
    for s in static:
        why = allowed(s, setters)
        if why:
            nallowed += 1
            F.n += 1
        else:
            F.check("C16", f"static/frame/{s['function']}:{s['text'].split(' = ')[0][:60]}", False, dict(kind=s["kind"], text=s["text"], where=s["where"]))
    fresh_call_sites(src, lambda oid, ok, d=None: F.check("C16", oid, ok, d))
    check_names_columns(src, lambda oid, ok, d=None: F.check("C16", oid, ok, d))
    # compute functions: no store other than to locals at all (no allow-list applies there)
    ncompute = sum(1 for s in static if s["where"].startswith("vector/_compute"))
    F.check("C16", "static/compute-layer-writes-nothing", ncompute == 0, [s for s in static if s["where"].startswith("vector/_compute")][:5])
    n_static = F.n
    for n_, bad_ in C.pool_map(object_slots_worker, [0, 1]):      # in worker processes: the symbolic lib must not leak into this one
        F.n += n_
        F.bad += bad_
    dtype_probe(F)
    aliasing_probe(F)
    from .. import arrays as AR
    for n_, bad_ in C.pool_map(nonfinite_probe_worker, [(s_, m_) for s_ in AR.systems() for m_ in (False, True)]):
        F.n += n_
        F.bad += bad_
    n_obj = F.n - n_static
    # bounded: NumPy / Awkward operand snapshots over the Engine D lattice
    u, b = E.lattice(C.tier(), C.seed())
    res = C.pool_map(E.unary_shard, u) + C.pool_map(E.binary_shard, b)
    lat_bad = [(oid, d) for r in res for p, oid, d in r[1] if p == "C16"]
    n_lat = sum(r[0] for r in res)
    failures = [(oid, d) for p, oid, d in F.bad] + lat_bad
    groups = {}
    for oid, detail in failures:
        groups.setdefault(oid.split("[")[0], []).append((oid, detail))
    nk = 0
    for gname, items in sorted(groups.items()):
        oid, detail = items[0]
        kf = C.match_known("C16", oid, dict(detail=str(detail)))
        if kf:
            nk += len(items)
            report.known_finding(oid, kf["what"])
        else:
            report.violation(oid, dict(kind="frame-obligation", failing_points=len(items), first=dict(obligation=oid, detail=detail), others=[o for o, _ in items[1:6]],
                                       replay_handler="vv.props.c16:replay"), has_input="static/" not in oid)
    coverage = dict(explanation=f"Engine C: {nfun} functions in {nfiles} files of src/vector analysed; {len(static)} stores/mutations through parameters found, {nallowed} of them in the explicit "
                                f"in-place API / object construction / Numba internals (allow-list with reasons in vv/props/c16.py), compute layer: {ncompute}; object backend: operands' slots "
                                f"identical after {n_obj} calls on symbolic coordinates; bounded: operand snapshots around {n_lat} run-time contract evaluations of the Engine D lattice; "
                                f"{len(failures)} undischarged ({nk} known findings).",
                    obligations=F.n, discharged=F.n - len(F.bad), functions_analysed=nfun, flagged_sites=len(static), allow_listed=nallowed,
                    evaluations=F.n + n_lat, distinct_nontrivial=nfun, bounded_lattice_evaluations=n_lat, known_findings=nk, exhaustive=False,
                    checker_cmd=f"./check C16 --tier {C.tier()}",
                    trusted_base=["the effect analysis sees every write expressed in Python source of src/vector; writes inside NumPy/Awkward C code are covered only by the purity of the "
                                  "library calls used (numpy ufuncs without out=, ak.zip, ak.transform, structured-array field reads)", "allow-list in vv/props/c16.py"],
                    samples=[dict(site=s["where"], function=s["function"], kind=s["kind"], allowed=allowed(s, setters)) for s in static[:4]])
    C.write_evidence("C16", "other", coverage, ["static frame analysis is conservative (may flag harmless code; cannot miss a write in Python source)",
                                                "NumPy / Awkward operand snapshots are bounded to the Engine D lattice"], time.time() - t0, len(report.violations))
    print(f"C16: functions={nfun} flagged={len(static)} allowed={nallowed} obligations={F.n} lattice_evaluations={n_lat} failed={len(failures)} known={nk} wall={time.time() - t0:.1f}s")
    return report.exit_code()


def replay(prop, rp, path):
    oid = rp["first"]["obligation"]
    print("frame obligation:", oid, rp["first"]["detail"])
    if "/static/" in oid:
        src = os.path.join(C.REPO, "src", "vector")
        sites, _, _ = EF.analyse_tree(src)
        setters = find_setters(src)
        still = [s for s in sites if s["kind"] in OPERAND_KINDS and not allowed(s, setters) and f"C16/static/frame/{s['function']}:{s['text'].split(' = ')[0][:60]}" == oid]
        if still or "compute-layer" in oid:
            print("still flagged:", still[:2])
            print(f"VIOLATION property={prop} replay={path} no-failing-input-found")
            return 1
        print("no longer flagged")
        return 0
    if "/probe/" in oid:
        from .. import arrays as AR
        F = E.Fails()
        dtype_probe(F)
        aliasing_probe(F)
        bad = list(F.bad)
        if "/nonfinite-" in oid:
            for n_, b_ in C.pool_map(nonfinite_probe_worker, [(s_, m_) for s_ in AR.systems() for m_ in (False, True)]):
                bad += b_
        hit = [b for b in bad if b[1] == oid]
        if hit:
            print("still failing:", hit[0])
            print(f"VIOLATION property={prop} replay={path}")
            return 1
        if not any(b[1] == oid for b in bad) and "/nonfinite-" not in oid and "derived-vector" not in oid and "dtype" not in oid:
            from . import engined_prop
            return engined_prop.replay(prop, rp, path)
        print("contract holds on this tree")
        return 0
    from . import engined_prop
    return engined_prop.replay(prop, rp, path)
