"""Generic driver for the properties decided by Engine A: runs variant/kernel/lemma jobs in a process pool, classifies every
obligation, prints VIOLATION / KNOWN-FINDING / UNDECIDED lines, writes replay files and the evidence file."""
from __future__ import annotations

import os
import time
from collections import Counter

from .. import common as C
from .. import enginea, ops
from ..views import sig_str

LIB_AXIOMS = [
    "IEEE-754 float64 arithmetic treated as real arithmetic where every intermediate is finite (rounding not analysed)",
    "numpy functions reached through `lib` denote the real functions of the same name (arctan2(y, x) = arg(x + iy); x % m = x - m floor(x/m) for m > 0; "
    "nan_to_num is the identity on finite values).  The analytic facts the engine uses about them - Pythagorean identity, angle addition / half-angle formulas; "
    "arctan2 / arccos / arcsin / arctan characterised by (cos, sin, window); injectivity of an angle within a window of length <= 2 pi; exp/log inverse, log of products, "
    "hyperbolic functions, arcsinh and arctanh via exp/log; the cot(theta) parametrisation of theta in (0, pi) and eta = -log tan(theta/2); x % m in [0, m); sqrt / cbrt; "
    "abs / max / min case splits; Cauchy-Schwarz - are no longer axioms: they are the 37 theorems of lean/Axioms.lean, proved from Mathlib and re-compiled by the thorough "
    "tier (coverage.library_axioms); assumed is only that the engine's rewrite rules instantiate those theorems faithfully (cross-checked numerically on every run)",
    "a/tan(A) is read as a*cos(A)/sin(A) also where cos(A) = 0 (projective reading; lean/Axioms.lean::cot_reading covers cos(A) != 0); float literals denote the simple rationals they round",
    "z3 (QF_NRA) and cvc5 are sound for `unsat`; the generator's normal forms, slicing and tactics are sound (cross-checked numerically "
    "against the real functions at seeded points on every run)",
    "CPython executes the compute functions as written; the symbolic number type cannot be inspected by the code without raising",
    "angle equality is decided through (cos, sin) within a common window of length 2 pi: the two ends of a closed window are identified "
    "(lean/Axioms.lean::angle_closed_window shows these are the only exception)",
]


def classify(report, results, prop):
    """walk all obligations; returns counters"""
    cnt = Counter()
    by = Counter()
    samples = []
    solver_t = 0.0
    for r in results:
        if r["status"] == "error" and not r["obligations"]:
            report.error(f"{r['id']}: {r.get('err')}\n{r.get('tb', '')[-600:]}")
            continue
        for o in r["obligations"]:
            cnt["obligations"] += 1
            solver_t += o.get("t", 0) or 0
            st = o["status"]
            if st == "proved":
                cnt["discharged"] += 1
                by[o.get("by") or "?"] += 1
                if len(samples) < 6 and o["kind"] == "value":
                    samples.append(dict(obligation=o["id"], status=st, by=o.get("by"), t=o.get("t")))
            elif st == "refuted":
                cx = o.get("counterexample")
                kf = C.match_known(prop, o["id"], cx)
                if kf is not None:
                    cnt["known"] += 1
                    report.known_finding(o["id"], kf["what"])
                else:
                    cnt["violations"] += 1
                    payload = dict(kind="engineA-counterexample", job=dict(pk=r["pk"], mod=r["mod"], sig=r["sig"]),
                                   counterexample=cx, found_by=o.get("by"), note=o.get("note"))
                    report.violation(o["id"], payload, has_input=cx is not None)
            elif st == "unknown":
                cnt["undecided"] += 1
                report.undecided_obl(o["id"], o.get("note") or f"solver: {o.get('by')}")
            else:
                report.error(f"{o['id']}: {o.get('note')}")
        cnt["refuter_points"] += r.get("refuter_points", 0)
        cnt["engine_crosschecks"] += r.get("engine_crosschecks", 0)
        cnt["cases"] += r.get("cases", 0)
        cnt["vacuous_cases"] += len(r.get("vacuous_cases", []))
        if r.get("engine_mismatch"):
            cnt["engine_mismatch"] += 1
    return cnt, by, samples, solver_t


def canary_job(args):
    """a deliberately wrong contract (planar add claimed to be subtract) must be refuted on every run"""
    from .. import modular
    import vector._compute.planar.subtract as sub
    from ..views import AzimuthalRhoPhi, AzimuthalXY
    modular.ensure_installed()
    j = enginea.VariantJob("planar", "add", (AzimuthalRhoPhi, AzimuthalRhoPhi), "CANARY")
    j.cfn = sub.dispatch_map[(AzimuthalXY, AzimuthalXY)][0]
    return j.run()


def run(prop, jobs, design_ref, extra_assumptions=(), functions_note="", extra_results=None, post=None, t_start=None):
    report = C.Report(prop)
    t0 = t_start or time.time()
    if C.tier() == "thorough":
        os.environ.setdefault("VERIF_REFUTER_POINTS", "32")
        enginea.NPOINTS = int(os.environ["VERIF_REFUTER_POINTS"])
    results = C.pool_map(enginea.run_variant_job, jobs)
    results, n_retry = C.rerun_unknown(enginea.run_variant_job, jobs, results)
    if extra_results:
        results += extra_results
    can = canary_job(None)
    cnt, by, samples, solver_t = classify(report, results, prop)
    if can["status"] != "refuted":
        report.error(f"canary contract (planar add == subtract) was not refuted: engine cannot be trusted ({can['status']})")
    if cnt["obligations"] == 0:
        report.error("no obligations were generated")
    if cnt["engine_mismatch"] and not cnt["violations"] and not cnt["known"]:
        report.error(f"{cnt['engine_mismatch']} functions: symbolic result disagrees with the real function at a sample point (engine unsound)")
    fns = sorted({(r["pk"], r["mod"], r["sig"]) for r in results})
    all_ok = cnt["discharged"] + cnt["known"] == cnt["obligations"]
    level = "proof" if all_ok and not report.errors else "other"
    coverage = dict(
        obligations=cnt["obligations"] - cnt["known"], discharged=cnt["discharged"], obligations_posed=cnt["obligations"],
        known_findings=cnt["known"], undecided=cnt["undecided"],
        violations=cnt["violations"], by_backend=dict(by), solver_time_s=round(solver_t, 2),
        functions_under_contract=len(fns), functions_by_operation=dict(sorted(Counter(f"{a}.{b}" for a, b, c in fns).items())), contract_cases=cnt["cases"], vacuous_cases=cnt["vacuous_cases"],
        refuter_points=cnt["refuter_points"], engine_crosschecks_against_cpython=cnt["engine_crosschecks"],
        canary="refuted" if can["status"] == "refuted" else can["status"],
        jobs_given_a_second_chance_with_4x_solver_budget=n_retry + sum(1 for r in (extra_results or []) if isinstance(r, dict) and r.get("second_chance")),
        checker_cmd=f"./check {prop} --tier {C.tier()}",
        trusted_base=["z3 5.1 (QF_NRA)", "cvc5 1.0.3 (second opinion on unknown)", "mpmath 60-digit evaluation (refuter / replay)",
                      "vv.symreal normal forms and tactics (radical squaring, congruence on opaque atoms, directional slicing)"],
        samples=samples + [dict(function=f"{a}.{b}[{c}]") for a, b, c in fns[:3]],
        explanation=(f"{len(fns)} real functions of /repo (rev {C.repo_head()}{'+dirty' if C.repo_dirty() else ''}) executed symbolically from the live "
                     f"dispatch tables; {cnt['obligations']} obligations posed (value, definedness, kernel) of which {cnt['discharged']} discharged, "
                     f"{cnt['known']} fail and are listed as open known findings (not counted in `obligations`), {cnt['undecided']} undecided (not counted as proved), {cnt['violations']} violations. {functions_note}"),
        exhaustive=False,
    )
    from .. import leancheck
    try:
        if C.tier() == "thorough":
            la = leancheck.run()
            if la.get("checked") and not la.get("ok"):
                report.error(f"lean/Axioms.lean did not check: {str(la.get('problem'))[-300:]}")
            la.pop("names", None)
        else:
            la = leancheck.census()
            la.pop("names", None)
            la.update(checked=False, note="compiled by the thorough tier (lake env lean lean/Axioms.lean, ~12 s); the quick tier records the digest and the theorem census only")
    except Exception as e:
        la = dict(checked=False, problem=f"{type(e).__name__}: {e}")
    coverage["library_axioms"] = la
    if post:
        post(report, results, coverage)
        if coverage["discharged"] != coverage["obligations"] or report.errors:
            level = "other"
    C.write_evidence(prop, level, coverage, LIB_AXIOMS + list(extra_assumptions), time.time() - t0, len(report.violations))
    print(f"{prop}: obligations={cnt['obligations']} discharged={cnt['discharged']} known={cnt['known']} undecided={cnt['undecided']} "
          f"violations={len(report.violations)} functions={len(fns)} wall={time.time() - t0:.1f}s", flush=True)
    return report.exit_code()
