"""C13 - ranges, sign conventions and classification predicates (DESIGN 4/C13).  One lemma job per variant (signature) of the
modules concerned, on the regular domain; singular strata (on the z axis, origin, light cone, +-pi) are covered by a small
*bounded* float64 evaluation of the stated conventions on an explicit list of boundary inputs (labelled bounded)."""
import itertools

from ..lemmas import LemmaJob
from . import lemma_prop
from .c12 import systems, PK, tau_cases, iff

MODS = ("phi", "deltaphi", "theta", "eta", "costheta", "cottheta", "deltaangle", "rho", "rho2", "mag", "mag2", "t", "t2", "tau", "tau2",
        "beta", "gamma", "is_timelike", "is_spacelike", "is_lightlike", "is_parallel", "is_antiparallel", "is_perpendicular", "dot", "z")


def g(s):
    return ",".join(s)


def in_range(L, name, val, lo, hi):
    """lo*pi <= val <= hi*pi"""
    if L.mode == "sym":
        from ..symreal import A
        v = A.of(val)
        L.holds(name, (v >= L.pi * lo) & (v <= L.pi * hi))
    else:
        eps = 1e-40
        L.holds(name, (val >= L.pi * lo - eps) and (val <= L.pi * hi + eps))


def l_angle_range(pk, mod, s, lo, hi, nvec=1):
    def lemma(L):
        vs = [L.vec(str(i + 1), g(s if nvec == 1 else s[i])) for i in range(nvec)]
        vws = [L.view(g(s if nvec == 1 else s[i]), v) for i, v in enumerate(vs)]
        for w in vws:        # regular domain of the accessor
            if mod in ("phi", "deltaphi"):
                L.assume(w[0] * w[0] + w[1] * w[1] > 0)
            else:
                L.assume(w[0] * w[0] + w[1] * w[1] + w[2] * w[2] > 0)
        sig = g(s) if nvec == 1 else ",".join(g(x) for x in s)
        r = L.fn(pk, mod, sig)(*[c for v in vs for c in v])
        in_range(L, "range", r, lo, hi)
    return lemma


def l_nonneg(pk, mod, s):
    def lemma(L):
        v = L.vec("1", g(s), tau_case=L.case.get("tau1", "nonneg"))
        r = L.fn(pk, mod, g(s))(*v)
        L.holds("non-negative", r >= 0)
    return lemma


def l_sign_of_z(mod, s):
    def lemma(L):
        v = L.vec("1", g(s))
        w = L.view(g(s), v)
        L.assume(w[0] * w[0] + w[1] * w[1] > 0)
        r = L.fn("spatial", mod, g(s))(*v)
        if L.mode == "sym":
            iff(L, "positive-iff-z-positive", r > 0, w[2] > 0)
            iff(L, "negative-iff-z-negative", r < 0, w[2] < 0)
        else:
            L.holds("sign-of-z", (r > 0) == (w[2] > 0) and (r < 0) == (w[2] < 0))
    return lemma


def l_t_from_tau(s):
    def lemma(L):
        v = L.vec("1", g(s), tau_case="free")          # *all* finite inputs: no representability assumption on tau
        r = L.fn("lorentz", "t", g(s))(*v)
        L.holds("t-non-negative", r >= 0)               # definedness obligations (sqrt argument >= 0, ...) are the 'never NaN' clause
    return lemma


def l_tau_from_t(s):
    def lemma(L):
        v = L.vec("1", g(s))
        w = L.view(g(s), v)
        r = L.fn("lorentz", "tau", g(s))(*v)
        s2 = w[3] * w[3] - (w[0] * w[0] + w[1] * w[1] + w[2] * w[2])
        if L.mode == "sym":
            iff(L, "negative-iff-spacelike", r < 0, s2 < 0)
        else:
            L.holds("negative-iff-spacelike", (r < 0) == (s2 < 0))
    return lemma


def l_beta_gamma(s):
    def lemma(L):
        v = L.vec("1", g(s), tau_case=L.case.get("tau1", "nonneg"))
        w = L.view(g(s), v)
        p2 = w[0] * w[0] + w[1] * w[1] + w[2] * w[2]
        L.assume(w[3] > 0)
        if L.case["kind"] == "timelike":
            L.assume(w[3] * w[3] - p2 > 0)
            b = L.fn("lorentz", "beta", g(s))(*v)
            L.holds("beta-in-[0,1)", (b >= 0) & (b < 1) if L.mode == "sym" else (b >= 0 and b < 1))
            L.holds("gamma>=1", L.fn("lorentz", "gamma", g(s))(*v) >= 1)
        else:
            L.assume(w[3] * w[3] - p2 == 0)
            L.eq("beta-is-1-for-lightlike", L.fn("lorentz", "beta", g(s))(*v), 1)
    return lemma


def l_causal(s):
    def lemma(L):
        v = L.vec("1", g(s), tau_case=L.case.get("tau1", "nonneg"))
        w = L.view(g(s), v)
        tol = L.real("tolerance", "nonneg")
        s2 = w[3] * w[3] - (w[0] * w[0] + w[1] * w[1] + w[2] * w[2])
        T = L.fn("lorentz", "is_timelike", g(s))(tol, *v)
        Sp = L.fn("lorentz", "is_spacelike", g(s))(tol, *v)
        Li = L.fn("lorentz", "is_lightlike", g(s))(tol, *v)
        if L.mode == "sym":
            L.holds("timelike-lightlike-exclusive", ~(T & Li))
            L.holds("spacelike-lightlike-exclusive", ~(Sp & Li))
            L.holds("timelike-spacelike-exclusive", ~(T & Sp))
            L.holds("timelike-implies-positive-interval", ~T | (s2 > 0))
            L.holds("spacelike-implies-negative-interval", ~Sp | (s2 < 0))
            iff(L, "timelike-iff-interval>tol", T, s2 > tol)
            iff(L, "spacelike-iff-interval<-tol", Sp, s2 < -tol)
            iff(L, "lightlike-iff-|interval|<tol", Li, L.abs(s2) < tol)
        else:
            T, Sp, Li = bool(T), bool(Sp), bool(Li)
            L.holds("exclusive", not (T and Li) and not (Sp and Li) and not (T and Sp))
            L.holds("sign", ((not T) or s2 > 0) and ((not Sp) or s2 < 0))
            L.holds("characterisation", T == (s2 > tol) and Sp == (s2 < -tol) and Li == (abs(s2) < tol))
    return lemma


def l_parallel(dim, s1, s2_):
    pk = PK[dim]

    def lemma(L):
        a, b = L.vec("1", g(s1)), L.vec("2", g(s2_))
        wa, wb = L.view(g(s1), a), L.view(g(s2_), b)
        tol = L.real("tolerance", "nonneg")
        dot = sum((wa[i] * wb[i] for i in range(1, dim)), wa[0] * wb[0])
        na = L.sqrt(sum((wa[i] * wa[i] for i in range(1, dim)), wa[0] * wa[0]))
        nb = L.sqrt(sum((wb[i] * wb[i] for i in range(1, dim)), wb[0] * wb[0]))
        sig = f"{g(s1)},{g(s2_)}"
        P = L.fn(pk, "is_parallel", sig)(tol, *a, *b)
        Q = L.fn(pk, "is_antiparallel", sig)(tol, *a, *b)
        R = L.fn(pk, "is_perpendicular", sig)(tol, *a, *b)
        # cos(angle) = dot/(|a||b|): within the tolerance of +1, -1, 0
        if L.mode == "sym":
            iff(L, "parallel-iff-cos>1-tol", P, dot > (1 - tol) * na * nb)
            iff(L, "antiparallel-iff-cos<tol-1", Q, dot < (tol - 1) * na * nb)
            iff(L, "perpendicular-iff-|cos|<tol", R, L.abs(dot) < tol * na * nb)
        else:
            L.holds("characterisation", bool(P) == (dot > (1 - tol) * na * nb) and bool(Q) == (dot < (tol - 1) * na * nb) and bool(R) == (abs(dot) < tol * na * nb))
    return lemma


LEMMAS = []
for _s in systems(2):
    LEMMAS.append(LemmaJob("C13", f"planar.phi[{g(_s)}]/range", l_angle_range("planar", "phi", _s, -1, 1)))
    for _m in ("rho", "rho2"):
        LEMMAS.append(LemmaJob("C13", f"planar.{_m}[{g(_s)}]/sign", l_nonneg("planar", _m, _s)))
    for _s2 in systems(2):
        LEMMAS.append(LemmaJob("C13", f"planar.deltaphi[{g(_s)};{g(_s2)}]/range", l_angle_range("planar", "deltaphi", (_s, _s2), -1, 1, nvec=2)))
        LEMMAS.append(LemmaJob("C13", f"planar.is_parallel-family[{g(_s)};{g(_s2)}]", l_parallel(2, _s, _s2)))
for _s in systems(3):
    LEMMAS.append(LemmaJob("C13", f"spatial.theta[{g(_s)}]/range", l_angle_range("spatial", "theta", _s, 0, 1)))
    for _m in ("mag", "mag2"):
        LEMMAS.append(LemmaJob("C13", f"spatial.{_m}[{g(_s)}]/sign", l_nonneg("spatial", _m, _s)))
    for _m in ("costheta", "cottheta"):
        LEMMAS.append(LemmaJob("C13", f"spatial.{_m}[{g(_s)}]/sign-of-z", l_sign_of_z(_m, _s)))
    for _s2 in systems(3):
        LEMMAS.append(LemmaJob("C13", f"spatial.deltaangle[{g(_s)};{g(_s2)}]/range", l_angle_range("spatial", "deltaangle", (_s, _s2), 0, 1, nvec=2)))
        LEMMAS.append(LemmaJob("C13", f"spatial.is_parallel-family[{g(_s)};{g(_s2)}]", l_parallel(3, _s, _s2)))
for _s in systems(4):
    LEMMAS.append(LemmaJob("C13", f"lorentz.t2[{g(_s)}]/sign", l_nonneg("lorentz", "t2", _s), cases=tau_cases(_s)))
    if "tau" in _s:
        LEMMAS.append(LemmaJob("C13", f"lorentz.t[{g(_s)}]/non-negative-never-nan", l_t_from_tau(_s)))
    else:
        LEMMAS.append(LemmaJob("C13", f"lorentz.tau[{g(_s)}]/negative-iff-spacelike", l_tau_from_t(_s)))
    LEMMAS.append(LemmaJob("C13", f"lorentz.beta-gamma[{g(_s)}]", l_beta_gamma(_s),
                           cases=[dict(kind=k, **c) for k in ("timelike", "lightlike") for c in tau_cases(_s)]))
    LEMMAS.append(LemmaJob("C13", f"lorentz.causal-predicates[{g(_s)}]", l_causal(_s), cases=tau_cases(_s)))


# ---------------------------------------------------------------------------------------------- bounded stand-in: singular strata
def boundary_conventions(report, results, coverage):
    """float64 evaluation of the stated conventions on an explicit list of boundary inputs (bounded; never counted as proved)"""
    import math
    import numpy
    import vector
    bad = []
    n = 0
    pts2 = [(1, 0), (0, 1), (-1, 0), (0, -1), (-1, -0.0), (-1, 1e-300), (1e-300, -1e-300), (0.0, 0.0), (3, -4)]
    with numpy.errstate(all="ignore"):
        for x, y in pts2:
            for v in (vector.obj(x=x, y=y), vector.obj(x=x, y=y).to_rhophi() if (x or y) else vector.obj(rho=0.0, phi=0.3)):
                n += 1
                if not (-math.pi <= v.phi <= math.pi) or not (v.rho >= 0 and v.rho2 >= 0):
                    bad.append(("phi/rho range", repr(v)))
                for w in (vector.obj(x=1, y=0), vector.obj(rho=2, phi=math.pi), vector.obj(rho=1, phi=-math.pi)):
                    n += 1
                    d = v.deltaphi(w)
                    if not (-math.pi <= d <= math.pi):
                        bad.append(("deltaphi range", repr(v), repr(w), d))
        pts3 = [(0, 0, 1), (0, 0, -1), (1, 0, 0), (0, 1, 0), (0, 0, 0.0), (1, 1, 1e-300), (1e-200, 0, 1), (-1, 0, -1)]
        for p in pts3:
            base = vector.obj(x=p[0], y=p[1], z=p[2])
            # a vector on the z axis is not representable with theta/eta storage (statement of C01): only z storage there
            forms = (base, base.to_rhophiz()) if (abs(p[0]) < 1e-100 and abs(p[1]) < 1e-100) else \
                (base, base.to_rhophiz(), base.to_xytheta(), base.to_rhophieta(), base.to_xyeta(), base.to_rhophitheta())
            for v in forms:
                n += 1
                th = v.theta
                if not (math.isnan(th) or 0 <= th <= math.pi) or not (v.mag >= 0 and v.mag2 >= 0):
                    bad.append(("theta/mag range", repr(v), th))
                for w in (vector.obj(x=0, y=0, z=2), vector.obj(x=1, y=0, z=0), vector.obj(rho=1, phi=0.5, eta=-0.3)):
                    n += 1
                    da = v.deltaangle(w)
                    if not (math.isnan(da) or 0 <= da <= math.pi):
                        bad.append(("deltaangle range", repr(v), repr(w), da))
                if p[0] or p[1]:
                    for acc in ("costheta", "cottheta"):
                        r = getattr(v, acc)
                        if p[2] > 1e-250 and not r >= 0 or p[2] < -1e-250 and not r <= 0:
                            bad.append((acc + " sign", repr(v), r))
        # exactly on the z axis (array backends: IEEE semantics instead of ZeroDivisionError): costheta = +-1, cottheta = +-inf, eta = +-inf with the sign of z,
        # theta = 0 / pi - in Cartesian and in cylindrical storage alike
        zs = numpy.array([5.0, -5.0, 1e-100, -1e100])       # squares stay representable: no overflow / underflow artefacts
        on_axis = [("xy,z", vector.array({"x": numpy.zeros(4), "y": numpy.zeros(4), "z": zs})),
                   ("rhophi,z", vector.array({"rho": numpy.zeros(4), "phi": numpy.full(4, 0.3), "z": zs})),
                   ("xy,z,t", vector.array({"x": numpy.zeros(4), "y": numpy.zeros(4), "z": zs, "t": numpy.abs(zs) * 2})),
                   ("rhophi,z,tau", vector.array({"rho": numpy.zeros(4), "phi": numpy.full(4, -0.4), "z": zs, "tau": numpy.ones(4)}))]
        try:
            import awkward as ak
            on_axis += [("ak:" + nm, vector.Array(ak.Array({k: numpy.asarray(a[k]) for k in a.dtype.names}))) for nm, a in list(on_axis)]
        except Exception:
            pass
        sgn = numpy.sign(zs)
        for nm, a in on_axis:
            for acc, want in (("costheta", sgn * 1.0), ("cottheta", sgn * numpy.inf), ("eta", sgn * numpy.inf), ("theta", numpy.where(sgn > 0, 0.0, math.pi))):
                n += 1
                got = numpy.asarray(getattr(a, acc), dtype=float)
                if not numpy.array_equal(got, want):
                    bad.append((f"{acc} on the z axis", nm, got.tolist(), want.tolist()))
        for tau in (0.0, 1.0, -1.0, -5.0, 1e-300, -1e150):
            for sp in ((0, 0, 0), (1, 0, 0), (0, 0, 3), (1e100, 1e100, 1e100)):
                for make in (lambda: vector.obj(x=sp[0], y=sp[1], z=sp[2], tau=tau),
                             lambda: vector.obj(rho=math.hypot(sp[0], sp[1]), phi=0.1, z=sp[2], tau=tau)):
                    v = make()
                    n += 1
                    t = v.t
                    if math.isnan(t) or t < 0:
                        bad.append(("t from tau is NaN or negative", repr(v), t))
        for vec in (vector.obj(x=1, y=0, z=0, t=1), vector.obj(x=0, y=0, z=3, t=3), vector.obj(x=0, y=0, z=0, t=0.0),
                    vector.obj(x=3, y=4, z=0, t=5), vector.obj(x=1, y=0, z=0, t=2), vector.obj(x=1, y=0, z=0, t=0.5)):
            for tol in (0, 1e-5, 1e-2, 0.5):
                n += 1
                flags = [bool(vec.is_timelike(tol)), bool(vec.is_lightlike(tol)), bool(vec.is_spacelike(tol))]
                if sum(flags) > 1:
                    bad.append(("causal predicates overlap", repr(vec), tol, flags))
        for mk4 in (lambda: vector.obj(x=1e4, y=0.0, z=0.0, tau=-1e-5), lambda: vector.obj(x=1e4, y=0.0, z=0.0, tau=1e-5), lambda: vector.obj(rho=3e3, phi=0.5, eta=2.0, tau=-1e-4),
                    lambda: vector.array({"x": numpy.array([1e4, 2e5]), "y": numpy.zeros(2), "z": numpy.zeros(2), "tau": numpy.array([-1e-5, -3e-4])})):
            v4 = mk4()
            for tol in (0, 1e-13, 1e-11, 1e-9, 1e-6):
                n += 1
                fl = [numpy.asarray(v4.is_timelike(tol)), numpy.asarray(v4.is_lightlike(tol)), numpy.asarray(v4.is_spacelike(tol))]
                if bool(numpy.any(fl[0].astype(int) + fl[1].astype(int) + fl[2].astype(int) > 1)):
                    bad.append(("causal predicates overlap (float64, tau-stored, extreme magnitudes)", repr(v4), tol, [f.tolist() for f in fl]))
        for vec in (vector.obj(x=1, y=0, z=0, t=1), vector.obj(x=0, y=0, z=3, t=3), vector.obj(x=0, y=0, z=0, t=0.0),
                    vector.obj(x=3, y=4, z=0, t=5), vector.obj(x=1, y=0, z=0, t=2), vector.obj(x=1, y=0, z=0, t=0.5)):
            if vec.t > 0 and vec.t ** 2 == vec.mag2:
                n += 1
                if vec.beta != 1:
                    bad.append(("beta of lightlike vector", repr(vec), vec.beta))
    coverage["bounded_singular_strata"] = dict(evaluations=n, bound="explicit list of boundary inputs in vv/props/c13.py (axis-aligned, origin, +-pi, light cone, huge/tiny tau), float64, object backend",
                                               failures=len(bad), label="bounded - not counted as proved")
    for b in bad[:10]:
        kf = None
        from .. import common as C
        oid = "C13/bounded/" + b[0].replace(" ", "-")
        kf = C.match_known("C13", oid, dict(detail=[str(x) for x in b]))
        if kf:
            report.known_finding(oid, kf["what"])
        else:
            report.violation(oid, dict(kind="bounded-float-evaluation", detail=[str(x) for x in b],
                                       replay_handler="vv.props.c13:replay_bounded"), has_input=True)


def replay_bounded(prop, rp, path):
    print("bounded float evaluation; recorded failing input:", rp.get("detail"))
    class R:
        def __init__(s): s.v = []
        def violation(s, *a, **k): s.v.append(a)
        def known_finding(s, *a): pass
    r = R(); cov = {}
    boundary_conventions(r, [], cov)
    print(cov)
    return 1 if r.v else 0


def _range_worker(job):
    """BOUNDED: at seeded points of every case of one variant, the stored angles / radii of a vector-valued *result* are in their documented
    ranges (phi in [-pi, pi], theta in [0, pi], rho >= 0) - the range clause of C13 for operations that return vectors"""
    import random
    import mpmath as mp
    from .. import enginea, numlib as NL
    from ..views import AzimuthalRhoPhi, LongitudinalTheta
    pk, n, sig = job
    J = enginea.VariantJob(pk, n, sig, "C13")
    oc = [r for r in J.returns if r is not None and isinstance(r, type)]
    out, bad = 0, []
    eps = mp.mpf(10) ** (-40)
    sym = []
    try:
        for label, cname, kinds, tc in J.cases():
            ctx, scal, sargs, coords, views = J.setup_case(cname, kinds, tc)
            sym += _range_symbolic(J, oc, label, ctx, sargs, coords)
            rng = random.Random(hash((enginea.SEED, J.base_id, label, "range")) & 0xFFFFFFFF)
            for env in J.sample_points(ctx, rng, 4, tries=120):
                try:
                    a, vec = J.concrete_args(ctx, env)
                    r = NL.run_real(J.fn, a + [c for v in vec for c in v])
                except Exception:
                    continue
                r = r if isinstance(r, tuple) else (r,)
                if not NL.finite(r):
                    continue
                out += 1
                viol = None
                if oc and oc[0] is AzimuthalRhoPhi:
                    if not (r[0] >= -eps):
                        viol = ("rho", r[0])
                    elif not (-mp.pi - eps <= r[1] <= mp.pi + eps):
                        viol = ("phi", r[1])
                if viol is None and len(oc) >= 2 and oc[1] is LongitudinalTheta and not (-eps <= r[2] <= mp.pi + eps):
                    viol = ("theta", r[2])
                if viol:
                    bad.append((f"C13/result-range/{viol[0]}/{pk}.{n}[{enginea.sig_str(sig)}]{{{label}}}",
                                dict(coordinate=viol[0], value=str(viol[1]), scalars=[str(x) for x in a], stored=[[str(c) for c in v] for v in vec], job=dict(pk=pk, mod=n, sig=enginea.sig_str(sig)))))
                    break
    except Exception as e:
        return out, bad, f"{type(e).__name__}: {e}", sym
    return out, bad, None, sym


def _range_symbolic(J, oc, label, ctx, sargs, coords):
    """PROOF part of the range clause for vector-valued results: the real variant is executed symbolically under the case's
    precondition; the returned phi / theta must be an angle whose *window* (interval of its linear form over the ranges of the
    stored angles, or the window of `% (2 pi)`, arctan2, arccos) lies inside [-pi, pi] / [0, pi], and the returned rho must be
    non-negative (sign class propagated along the computation, else z3).  Holds for all operand values of the case."""
    from .. import enginea, modular, prover as PR
    from ..symreal import A, Ang, PiMul, OutOfSubset
    from ..views import AzimuthalRhoPhi, LongitudinalTheta
    modular.ensure_installed()
    tag = f"{J.pk}.{J.modname}[{enginea.sig_str(J.sig)}]{{{label}}}"
    outl = []
    try:
        got = J.fn(enginea.LIB, *sargs, *[c for cs in coords for c in cs])
    except OutOfSubset as e:
        return [(f"C13/result-range/subset/{tag}", "unknown", "engine", f"left the verifiable subset: {e}")]
    got = got if isinstance(got, tuple) else (got,)

    def angle(name, val, lo, hi):
        if isinstance(val, PiMul):
            val = val.ang()
        w = val.win() if isinstance(val, Ang) else None
        if w is not None and w[0] >= lo and w[1] <= hi:
            outl.append((f"C13/result-range/{name}/{tag}", "proved", "interval analysis of the angle's window", f"window {w[0]}*pi .. {w[1]}*pi"))
        else:
            outl.append((f"C13/result-range/{name}/{tag}", "unknown", "interval analysis of the angle's window", f"window {w} not inside [{lo}, {hi}]*pi"))
    if oc and oc[0] is AzimuthalRhoPhi:
        rho = A.of(got[0])
        if rho.sign() in ("+", "0+", "0"):
            outl.append((f"C13/result-range/rho/{tag}", "proved", "sign class propagated along the computation", rho.sign()))
        else:
            r = PR.prove(ctx, rho.rel(">="))
            outl.append((f"C13/result-range/rho/{tag}", "proved" if r["status"] == "proved" else "unknown", r["by"], None))
        angle("phi", got[1], -1, 1)
    if len(oc) >= 2 and oc[1] is LongitudinalTheta:
        angle("theta", got[2], 0, 1)
    return outl


def result_ranges(report, results, coverage):
    from .. import ops, common as C
    from ..views import AzimuthalRhoPhi, LongitudinalTheta
    jobs = []
    for pk, n, m in ops.all_modules():
        for sig, entry in m.dispatch_map.items():
            rets = entry[1:]
            if any(r is AzimuthalRhoPhi or r is LongitudinalTheta for r in rets):
                jobs.append((pk, n, sig))
    res = C.pool_map(_range_worker, jobs)
    nev = sum(r[0] for r in res)
    bad = [b for r in res for b in r[1]]
    errs = [r[2] for r in res if r[2]]
    sym = [o for r in res for o in r[3]]
    refuted = {oid for oid, _ in bad}
    proved = [o for o in sym if o[1] == "proved"]
    coverage["obligations"] += len(sym)
    coverage["obligations_posed"] = coverage.get("obligations_posed", 0) + len(sym)
    coverage["discharged"] += len(proved)
    for o in proved:
        coverage["by_backend"][o[2]] = coverage["by_backend"].get(o[2], 0) + 1
    for o in sym:
        if o[1] != "proved" and o[0] not in refuted:
            coverage["undecided"] = coverage.get("undecided", 0) + 1
            report.undecided_obl(o[0], o[3] or "")
    coverage["result_ranges"] = dict(variants=len(jobs), obligations=len(sym), discharged=len(proved),
                                     rule="every variant whose declared result stores phi or theta, every contract case: returned phi in [-pi, pi], theta in [0, pi], rho >= 0 for ALL operand "
                                          "values of the case - by the window of the returned angle (interval of its linear form / window of % 2pi, arctan2, arccos) and the sign class of rho (else z3)",
                                     numeric_crosscheck=dict(evaluations=nev, failed=len(bad), engine_errors=len(errs), label="the same clause evaluated on the real functions at up to 4 seeded points "
                                                             "per case (60 digits): refutes with a replayable input; never counted as proved"))
    if errs:
        coverage["result_ranges"]["engine_error_samples"] = errs[:3]
    groups = {}
    for oid, d in bad:
        groups.setdefault(oid.split("[")[0], []).append((oid, d))
    for g, items in sorted(groups.items()):
        oid, d = items[0]
        kf = C.match_known("C13", oid, dict(detail=str(d)))
        if kf:
            report.known_finding(oid, kf["what"])
        else:
            report.violation(oid, dict(kind="result-range", failing_variants=len(items), first=dict(obligation=oid, detail=d), others=[x[0] for x in items[1:6]], replay_handler="vv.props.c13:replay_range"), has_input=True)
    if nev == 0:
        report.error("C13 result ranges: nothing evaluated")


def replay_range(prop, rp, path):
    import mpmath as mp
    import importlib
    from .. import numlib as NL
    from ..views import BYNAME
    d = rp["first"]["detail"]
    job = d["job"]
    m = importlib.import_module(f"vector._compute.{job['pk']}.{job['mod']}")
    sig = tuple(BYNAME.get(x, x) for x in job["sig"].split(","))
    fn = m.dispatch_map[sig][0]
    args = [mp.mpf(x) if x not in ("True", "False") else x == "True" for x in d["scalars"]] + [mp.mpf(c) for v in d["stored"] for c in v]
    r = NL.run_real(fn, args)
    r = r if isinstance(r, tuple) else (r,)
    idx = {"rho": 0, "phi": 1, "theta": 2}[d["coordinate"]]
    val = r[idx]
    print(f"{fn.__module__}:{fn.__name__}{tuple(d['scalars'])}{d['stored']} -> {d['coordinate']} = {val}")
    lo, hi = {"rho": (0, mp.inf), "phi": (-mp.pi, mp.pi), "theta": (0, mp.pi)}[d["coordinate"]]
    if not (lo - mp.mpf(10) ** -30 <= val <= hi + mp.mpf(10) ** -30):
        print(f"VIOLATION property={prop} replay={path}")
        return 1
    print("in range on this tree")
    return 0


def _post(report, results, coverage):
    boundary_conventions(report, results, coverage)
    result_ranges(report, results, coverage)


def main(argv):
    return lemma_prop.run("C13", __name__, MODS, post=_post,
                          extra_assumptions=["tolerances >= 0 (statement)", "singular strata (on the z axis, origin, exactly on the light cone, phi = +-pi) are outside real "
                                             "arithmetic's reach for the sign conventions of +-0 and NaN replacement: a bounded float64 evaluation on an explicit list of "
                                             "boundary inputs stands in (coverage.bounded_singular_strata), labelled bounded"],
                          note="Per variant: phi/deltaphi in [-pi,pi], theta/deltaangle in [0,pi], rho, mag, rho2, mag2, t2 >= 0, sign of costheta/cottheta, t from tau >= 0 "
                               "and defined for all finite inputs, tau from t negative iff spacelike, beta/gamma ranges, exclusiveness and sign of the causal predicates, "
                               "and the cosine characterisation of is_parallel/antiparallel/perpendicular.")
