"""Driver for the properties decided (bounded) by the Engine D lattice: C03, C16 (dynamic half), C18."""
from __future__ import annotations

import time

from .. import common as C
from .. import engined as E

BOUNDS = ("NumPy shapes (3,), (2,2); Awkward layouts: flat, jagged (with an empty list), nested to depth 3 (with empty lists), option-typed at list and record level, "
          "single record; extra fields charge/weight on the jagged, flat and record layouts; 20 coordinate systems x 2 flavors; well-conditioned values "
          "(timelike, forward, off-axis, away from +-pi); binary pairings np-np, ak-ak, np-obj, obj-np, ak-obj, obj-ak, ak-np, np-ak, record-record (+4 more in the thorough tier)")


def run(prop, tags, title, extra_checks=None, assumptions=(), replay_handler="vv.props.engined_prop:replay", symbolic_numpy=False, also=None):
    """tags: the property tags of the lattice obligations that belong to this check"""
    report = C.Report(prop)
    t0 = time.time()
    u, b = E.lattice(C.tier(), C.seed())
    ru = C.pool_map(E.unary_shard, u)
    rb = C.pool_map(E.binary_shard, b)
    n_all = sum(r[0] for r in ru + rb)
    bad_all = [x for r in ru + rb for x in r[1]]
    bad = [(oid.replace(p + "/", prop + "/", 1), d) for p, oid, d in bad_all if p in tags or (also is not None and also(p, oid))]
    pr = [(oid.replace(p + "/", prop + "/", 1), ok, d) for p, oid, ok, d in E.probes() if p in tags]
    extra = []
    n_extra = 0
    sym = None
    if symbolic_numpy:
        from .. import npsym, objsym
        shapes = ((3,), (2, 2)) if C.tier() == "quick" else ((3,), (2, 2), (2, 1, 2))
        rs = C.pool_map(npsym.shard, [(s_, m_, shapes) for s_ in objsym.systems() for m_ in (False, True)])
        sym = dict(obligations=sum(r[0] for r in rs), failed=sum(len(r[1]) for r in rs), not_evaluable=sum(r[2] for r in rs), shapes=[list(x) for x in shapes],
                   label="parametric symbolic evaluation of the real NumPy backend on object-dtype arrays of opaque tokens: element i of every result is term-identical to the "
                         "object-backend result for element i - for every value (only the array shapes are bounded); extraction change: backends.numpy._is_type_safe accepts the object dtype; "
                         "operations applying Python comparison operators to columns are not evaluable this way and stay bounded")
        extra += [(oid, d) for r in rs for p_, oid, d in r[1] if p_ == "C03"]
        n_extra += sym["obligations"]
    if extra_checks:
        F = E.Fails()
        extra_checks(F)
        n_extra += F.n
        extra += [(oid, d) for p, oid, d in F.bad]
    failures = bad + [(oid, d) for oid, ok, d in pr if not ok] + extra
    groups = {}
    for oid, detail in failures:
        groups.setdefault(oid.split("[")[0], []).append((oid, detail))
    nk = nv = 0
    for gname, items in sorted(groups.items()):
        oid, detail = items[0]
        kf = C.match_known(prop, oid, dict(detail=str(detail)))
        if kf:
            nk += len(items)
            report.known_finding(oid, kf["what"])
        else:
            nv += len(items)
            report.violation(oid, dict(kind="engineD-runtime-contract", failing_lattice_points=len(items), first=dict(obligation=oid, detail=detail),
                                       others=[o for o, _ in items[1:8]], replay_handler=replay_handler), has_input=True)
    # count the lattice evaluations that belong to this property: the lattice reports totals only, so re-derive from failures + passes
    n = n_all + len(pr) + n_extra
    coverage = dict(evaluations=n, distinct_nontrivial=len(u) * 40 + sum(len(j[1]) for j in b) * 10,
                    rule="one evaluation = one run-time contract (value of one coordinate of one call against the object backend, operand snapshot, structure, extra field, "
                         "result class) at one lattice point; distinct non-trivial = (operation x coordinate-system signature x flavor) combinations, counted conservatively",
                    failed=len(failures), known_findings=nk, violations=nv, probes=len(pr), bound=BOUNDS, exhaustive=False, symbolic_numpy=sym,
                    samples=[dict(call="rotate_euler(zyx)[rhophi,eta,tau|mom|ak-option]", contract="every coordinate of every element equals the object-backend result; None positions kept"),
                             dict(call="add[xy,z|gen|np(3)]x[rhophi,theta|mom|object]", contract="element i == object result i; operands bit-for-bit unchanged; momentum flavor")],
                    explanation=f"{title}  BOUNDED stand-in (run-time contracts on the real NumPy/Awkward glue; never counted as proved): {n} contract evaluations over the lattice "
                                f"[{BOUNDS}]; {len(failures)} failed ({nk} listed as known findings).")
    C.write_evidence(prop, "other", coverage,
                     ["bounded: only the enumerated shapes/layouts/values are covered", "the object backend is the reference for each element (tied to the proved compute contracts by C05, C01, C02)",
                      "ak.transform, ak.zip, ak.broadcast_arrays, NumPy structured-array assignment are library behaviour (assumed)"] + list(assumptions),
                     time.time() - t0, len(report.violations))
    print(f"{prop}: contract_evaluations={n} failed={len(failures)} known={nk} wall={time.time() - t0:.1f}s")
    return report.exit_code()


def replay(prop, rp, path):
    """re-run the lattice shard of the recorded obligation"""
    import re
    oid = rp["first"]["obligation"]
    m = re.search(r"\[([a-z,]+)\|(mom|gen)\|([^\]]+)\]", oid)
    if "/symbolic-numpy/" in oid:
        from .. import npsym
        s1, mom = tuple(m.group(1).split(",")), m.group(2) == "mom"
        n_, bad_, sk_ = C.pool_map(npsym.shard, [(s1, mom, ((3,), (2, 2))), (s1, mom, ((3,),))])[0]
        hits = [x for x in bad_ if x[1] == oid]
    elif "/probe/" in oid or not m:
        hits = [p for p in E.probes() if p[1].split("/", 1)[1] == oid.split("/", 1)[1] and not p[2]]
    else:
        s1, mom = tuple(m.group(1).split(",")), m.group(2) == "mom"
        u, b = E.lattice("thorough", rp.get("seed", 0))
        if "]x[" in oid:
            res = [E.binary_shard(j) for j in b if j[0] == s1]
        else:
            res = [E.unary_shard(j) for j in u if j[0] == s1 and j[1] == mom]
        hits = [x for r in res for x in r[1] if x[1].split("/", 1)[1] == oid.split("/", 1)[1]]
    for h in hits[:3]:
        print("still failing:", h)
    if hits:
        print(f"VIOLATION property={prop} replay={path}")
        return 1
    print("contract holds on this tree (at the recorded lattice point)")
    return 0
