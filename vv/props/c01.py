"""C01 - results do not depend on the coordinate system operands are stored in (DESIGN 4/C01)."""
from .. import ops
from . import enginea_prop


def jobs(prop="C01", filt=""):
    js = [(pk, n, sig, prop) for pk, n, m in ops.all_modules() for sig in m.dispatch_map if filt in f"{pk}.{n}["]
    if not filt:
        js += [("lorentz", "boost_beta3", "kernel", prop), ("lorentz", "boost_p4", "kernel", prop)]
    return js


def main(argv):
    from . import glue_part
    return enginea_prop.run("C01", jobs(), "DESIGN 4/C01", post=glue_part.post("C01"),
                            functions_note="Each variant is proved equal, on the Cartesian view of its operands, to the all-Cartesian variant "
                                           "of the same operation; callees are replaced by their contracts (modular mode).")
