"""C03 - object, NumPy and Awkward backends compute the same values (DESIGN 4/C03).  BOUNDED (Engine D).

Proved part (lemma): every backend reaches the *same function object* for a signature (`_wrap_dispatched_function` returns the
function itself for object/NumPy and `awkward_transform(func)` for Awkward) - checked by executing `dispatch` with recording
stubs; the element-wise agreement is a run-time contract evaluated over the Engine D lattice."""
from . import engined_prop


def same_function_lemma(F):
    import vector
    import vector.backends.awkward as AW
    from .. import ops
    o = vector.obj(x=1.0, y=2.0, z=3.0, t=10.0)
    n = vector.array({"x": [1.0], "y": [2.0], "z": [3.0], "t": [10.0]})
    sentinel = lambda lib, *a: None
    F.check("C03", "lemma/object-wraps-function-as-itself", o._wrap_dispatched_function(sentinel) is sentinel)
    F.check("C03", "lemma/numpy-wraps-function-as-itself", n._wrap_dispatched_function(sentinel) is sentinel)
    try:
        a = vector.Array([{"x": 1.0, "y": 2.0, "z": 3.0, "t": 10.0}])
        w = a._wrap_dispatched_function(sentinel)
        F.check("C03", "lemma/awkward-wraps-function-in-awkward_transform", isinstance(w, AW.awkward_transform) and w.func is sentinel)
    except Exception as e:
        F.check("C03", "lemma/awkward-wraps-function-in-awkward_transform", False, f"{type(e).__name__}: {e}")


def main(argv):
    return engined_prop.run("C03", {"C03", "C05"}, "Element i of a NumPy/Awkward result equals the object-backend result for element i; shapes and list structure preserved; "
                            "scalars, arrays of scalars and single objects broadcast; result class/flavor/coordinate system as for the object backend.", extra_checks=same_function_lemma,
                            symbolic_numpy=True)
