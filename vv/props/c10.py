"""C10 - rotations are proper rotations and their spellings agree (DESIGN 4/C10)."""
from ..lemmas import LemmaJob
from . import lemma_prop

MODS = ("rotateZ", "rotateX", "rotateY", "rotate_axis", "rotate_euler", "rotate_quaternion")
C3 = "xy,z"
ORDERS = ("xzx", "xyx", "yxy", "yzy", "zyz", "zxz", "xzy", "xyz", "yxz", "yzx", "zyx", "zxy")


def dot3(a, b): return a[0] * b[0] + a[1] * b[1] + a[2] * b[2]
def cross(a, b): return (a[1] * b[2] - a[2] * b[1], a[2] * b[0] - a[0] * b[2], a[0] * b[1] - a[1] * b[0])


def rot_laws(make):
    """length, dot product and handedness preserved by v -> R(v)"""
    def lemma(L):
        R = make(L)
        a, b = L.cart("a", 3), L.cart("b", 3)
        Ra, Rb = R(a), R(b)
        L.eq("dot-preserved", dot3(Ra, Rb), dot3(a, b))
        L.eq("length-preserved", dot3(Ra, Ra), dot3(a, a))
        L.eq("handedness", cross(Ra, Rb), R(cross(a, b)))
    return lemma


def mk_axisrot(name):
    def make(L):
        ang = L.angle("angle")
        f = L.fn("planar", "rotateZ", "xy") if name == "rotateZ" else L.fn("spatial", name, C3)
        if name == "rotateZ":
            return lambda v: tuple(f(ang, v[0], v[1])) + (v[2],)
        return lambda v: tuple(f(ang, *v))
    return make


def mk_axis(L):
    ang = L.angle("angle")
    n = L.cart("n", 3)
    L.assume(dot3(n, n) > 0)
    f = L.fn("spatial", "rotate_axis", f"{C3},{C3}")
    return lambda v: tuple(f(ang, *n, *v))


def mk_euler(order):
    def make(L):
        phi, theta, psi = L.angle("phi"), L.angle("theta"), L.angle("psi")
        f = L.fn("spatial", "rotate_euler", f"{C3},{order}")
        return lambda v: tuple(f(phi, theta, psi, *v))
    return make


def mk_quat(L):
    u, i, j, k = L.real("u"), L.real("i"), L.real("j"), L.real("k")
    L.assume(u * u + i * i + j * j + k * k == 1)
    f = L.fn("spatial", "rotate_quaternion", C3)
    return lambda v: tuple(f(u, i, j, k, *v))


def l_additive(name):
    def lemma(L):
        a1, a2 = L.angle("alpha"), L.angle("beta")
        v = L.cart("v", 3)
        if name == "rotate_axis":
            n = L.cart("n", 3)
            L.assume(dot3(n, n) > 0)
            f = L.fn("spatial", "rotate_axis", f"{C3},{C3}")
            R = lambda a, w: tuple(f(a, *n, *w))
        elif name == "rotateZ":
            f = L.fn("planar", "rotateZ", "xy")
            R = lambda a, w: tuple(f(a, w[0], w[1])) + (w[2],)
        else:
            f = L.fn("spatial", name, C3)
            R = lambda a, w: tuple(f(a, *w))
        L.eq("additive", R(a2, R(a1, v)), R(a1 + a2, v))
        L.eq("inverse", R(-a1, R(a1, v)), tuple(v))
    return lemma


def l_axis_special(L):
    a = L.angle("angle")
    v = L.cart("v", 3)
    k = L.real("k", "pos")
    f = L.fn("spatial", "rotate_axis", f"{C3},{C3}")
    L.eq("about-x", f(a, k, 0, 0, *v), L.fn("spatial", "rotateX", C3)(a, *v))
    L.eq("about-y", f(a, 0, k, 0, *v), L.fn("spatial", "rotateY", C3)(a, *v))
    rz = L.fn("planar", "rotateZ", "xy")(a, v[0], v[1])
    L.eq("about-z", f(a, 0, 0, k, *v), (rz[0], rz[1], v[2]))
    n = L.cart("n", 3)
    L.assume(dot3(n, n) > 0)
    L.eq("axis-length-ignored", f(a, k * n[0], k * n[1], k * n[2], *v), f(a, *n, *v))


def l_quaternion_axis(L):
    a, ch, sh = L.half_angle_pair("a")
    n, v = L.cart("n", 3), L.cart("v", 3)
    L.assume(dot3(n, n) == 1)
    q = L.fn("spatial", "rotate_quaternion", C3)(ch, n[0] * sh, n[1] * sh, n[2] * sh, *v)
    L.eq("quaternion==axis-angle", q, L.fn("spatial", "rotate_axis", f"{C3},{C3}")(a, *n, *v))


def l_euler_product(order):
    """rotate_euler(phi, theta, psi, 'abc') equals the documented product of three axis rotations (done with the real rotateX/Y/Z)"""
    def lemma(L):
        phi, theta, psi = L.angle("phi"), L.angle("theta"), L.angle("psi")
        v = L.cart("v", 3)
        rx, ry, rz = L.fn("spatial", "rotateX", C3), L.fn("spatial", "rotateY", C3), L.fn("planar", "rotateZ", "xy")

        def rot(ax, ang, w):
            if ax == "x":
                return tuple(rx(ang, *w))
            if ax == "y":
                return tuple(ry(ang, *w))
            r = rz(ang, w[0], w[1])
            return (r[0], r[1], w[2])
        a, b, c = order
        w = rot(a, -psi, rot(b, -theta, rot(c, -phi, v)))
        L.eq("product-of-axis-rotations", L.fn("spatial", "rotate_euler", f"{C3},{order}")(phi, theta, psi, *v), w)
    return lemma


LEMMAS = []
for _n in ("rotateZ", "rotateX", "rotateY"):
    LEMMAS.append(LemmaJob("C10", f"{_n}/isometry", rot_laws(mk_axisrot(_n))))
    LEMMAS.append(LemmaJob("C10", f"{_n}/additive-inverse", l_additive(_n)))
LEMMAS.append(LemmaJob("C10", "rotate_axis/isometry", rot_laws(mk_axis)))
LEMMAS.append(LemmaJob("C10", "rotate_axis/additive-inverse", l_additive("rotate_axis")))
LEMMAS.append(LemmaJob("C10", "rotate_axis/special-axes", l_axis_special))
LEMMAS.append(LemmaJob("C10", "rotate_quaternion/isometry", rot_laws(mk_quat)))
LEMMAS.append(LemmaJob("C10", "rotate_quaternion/equals-axis-angle", l_quaternion_axis))
for _o in ORDERS:
    LEMMAS.append(LemmaJob("C10", f"rotate_euler[{_o}]/isometry", rot_laws(mk_euler(_o))))
    LEMMAS.append(LemmaJob("C10", f"rotate_euler[{_o}]/product", l_euler_product(_o)))

lemma_prop.PK_FILTER["C10"] = {("planar", "rotateZ"), ("spatial", "rotateX"), ("spatial", "rotateY"), ("spatial", "rotate_axis"),
                                ("spatial", "rotate_euler"), ("spatial", "rotate_quaternion")}


def main(argv):
    return lemma_prop.run("C10", __name__, MODS, c02_mods=MODS,
                          extra_assumptions=["time / proper time untouched, rotate_nautical == rotate_euler(roll, pitch, yaw, 'zyx') and case-insensitivity of `order` "
                                             "are decided at the public-method level by the glue obligations of C05 (object backend executed on symbolic coordinates)"],
                          note="Isometry, handedness, additivity, inverse, special axes, quaternion==axis-angle and the Euler product for all 12 orders, "
                               "on the real Cartesian kernels; C01 obligations of the rotation modules transport them to all coordinate systems.")
