"""C09 - boosts are Lorentz transformations with the documented relations (DESIGN 4/C09).

Lemmas over the real Cartesian kernels (taken from the live dispatch tables), transported to every coordinate system by
the C01 obligations of the boost modules, which this check re-discharges itself; plus the kernel contracts of the
tau-keeping kernels and the C02 obligations (boost == documented Lorentz transformation)."""
from .. import ops
from ..lemmas import LemmaJob
from . import lemma_prop

MODS = ("boost_p4", "boost_beta3", "boostX_beta", "boostX_gamma", "boostY_beta", "boostY_gamma", "boostZ_beta",
        "boostZ_gamma", "transform4D", "to_beta3", "dot", "t", "tau", "tau2")
C4 = "xy,z,t"


def mdot(L, a, b):
    return L.fn("lorentz", "dot", f"{C4},{C4}")(*a, *b)


def beta_lt1(L, b):
    L.assume(b[0] * b[0] + b[1] * b[1] + b[2] * b[2] < 1)


def l_beta3_preserves_dot(L):
    a, b, v = L.cart("a", 4), L.cart("b", 4), L.cart("v", 3)
    beta_lt1(L, v)
    B = L.fn("lorentz", "boost_beta3", f"{C4},xy,z")
    L.eq("minkowski-product", mdot(L, B(*a, *v), B(*b, *v)), mdot(L, a, b))


def l_beta3_inverse(L):
    a, v = L.cart("a", 4), L.cart("v", 3)
    beta_lt1(L, v)
    B = L.fn("lorentz", "boost_beta3", f"{C4},xy,z")
    L.eq("undone-by-opposite", B(*B(*a, *v), -v[0], -v[1], -v[2]), tuple(a))


def l_axis(axis):
    def lemma(L):
        a = L.cart("a", 4)
        b1, b2 = L.real("beta1"), L.real("beta2")
        L.assume(b1 * b1 < 1)
        L.assume(b2 * b2 < 1)
        Bx = L.fn("lorentz", f"boost{axis}_beta", C4)
        L.eq("velocity-addition", Bx(b2, *Bx(b1, *a)), Bx((b1 + b2) / (1 + b1 * b2), *a))
        L.eq("undone-by-opposite", Bx(-b1, *Bx(b1, *a)), tuple(a))
        # agrees with the general boost along that axis
        v = [0, 0, 0]
        v["XYZ".index(axis)] = b1
        L.eq("equals-boost_beta3", Bx(b1, *a), L.fn("lorentz", "boost_beta3", f"{C4},xy,z")(*a, *v))
        c = L.cart("c", 4)
        L.eq("minkowski-product", mdot(L, Bx(b1, *a), Bx(b1, *c)), mdot(L, a, c))
    return lemma


def l_axis_gamma(axis):
    def lemma(L):
        a = L.cart("a", 4)
        b = L.real("beta")
        L.assume(b * b < 1)
        g = 1 / L.sqrt(1 - b * b)
        if L.case["dir"] == "pos":
            L.assume(b >= 0)
            gs = g
        else:
            L.assume(b < 0)
            gs = -g
        L.eq("gamma-spelling", L.fn("lorentz", f"boost{axis}_gamma", C4)(gs, *a), L.fn("lorentz", f"boost{axis}_beta", C4)(b, *a))
    return lemma


def l_p4_equals_beta3(L):
    a, p = L.cart("a", 4), L.cart("p", 4)
    L.assume(p[3] > 0)
    L.assume(p[3] * p[3] - (p[0] * p[0] + p[1] * p[1] + p[2] * p[2]) > 0)
    b3 = L.fn("lorentz", "to_beta3", C4)(*p)
    L.eq("boost_p4==boost_beta3(to_beta3)", L.fn("lorentz", "boost_p4", f"{C4},{C4}")(*a, *p),
         L.fn("lorentz", "boost_beta3", f"{C4},xy,z")(*a, *b3))


def l_boostcm(L):
    v = L.cart("v", 4)
    L.assume(v[3] > 0)
    L.assume(v[3] * v[3] - (v[0] * v[0] + v[1] * v[1] + v[2] * v[2]) > 0)
    r = L.fn("lorentz", "boost_p4", f"{C4},{C4}")(*v, -v[0], -v[1], -v[2], v[3])       # v.boostCM_of_p4(v) = v.boost_p4(v.neg3D)
    tau = L.fn("lorentz", "tau", C4)(*v)
    L.eq("rest-frame", r, (0, 0, 0, tau))
    b3 = L.fn("lorentz", "to_beta3", C4)(*v)
    r2 = L.fn("lorentz", "boost_beta3", f"{C4},xy,z")(*v, -b3[0], -b3[1], -b3[2])      # boostCM_of_beta3(v.to_beta3())
    L.eq("rest-frame-beta3", r2, (0, 0, 0, tau))


def l_p4_preserves_dot(L):
    a, b, p = L.cart("a", 4), L.cart("b", 4), L.cart("p", 4)
    L.assume(p[3] > 0)
    L.assume(p[3] * p[3] - (p[0] * p[0] + p[1] * p[1] + p[2] * p[2]) > 0)
    B = L.fn("lorentz", "boost_p4", f"{C4},{C4}")
    L.eq("minkowski-product", mdot(L, B(*a, *p), B(*b, *p)), mdot(L, a, b))


LEMMAS = [
    LemmaJob("C09", "boost_beta3/minkowski-product-preserved", l_beta3_preserves_dot),
    LemmaJob("C09", "boost_beta3/inverse", l_beta3_inverse),
    LemmaJob("C09", "boost_p4/equals-boost_beta3-of-to_beta3", l_p4_equals_beta3),
    LemmaJob("C09", "boost_p4/minkowski-product-preserved", l_p4_preserves_dot),
    LemmaJob("C09", "boostCM/rest-frame", l_boostcm),
]
for _ax in "XYZ":
    LEMMAS.append(LemmaJob("C09", f"boost{_ax}_beta/axis-laws", l_axis(_ax)))
    LEMMAS.append(LemmaJob("C09", f"boost{_ax}_gamma/gamma-spelling", l_axis_gamma(_ax), cases=[{"dir": "pos"}, {"dir": "neg"}]))


def main(argv):
    return lemma_prop.run("C09", __name__, MODS, kernels=True, c02_mods=MODS[:9],
                          note="Boost lemmas on the Cartesian kernels; C01 obligations of the boost modules transport them to all "
                               "12x(6|12) signatures; kernel contracts show the tau-stored variants keep tau and agree on the view.")
