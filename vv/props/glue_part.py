"""The public-API end of a property whose core is proved on the compute kernels (C01, C02, C09-C13).

The statements quantify over the *public* properties, methods and operators of every backend; Engine A decides them on the
kernel functions in the dispatch tables.  What connects the two is glue code (vector/_methods.py, backends/*.py): argument
marshalling, table lookup, result wrapping.  This module re-discharges, restricted to the operations of one property, the glue
contracts that `./check C05` / `./check C03` discharge for all operations, so that each property's own check covers every
function between its statement and the kernels (a change in the glue of a rotation fails `./check C10`, not only C05):

  object backend   the real methods on opaque tokens == the live table entry applied in contract order (term identity;
                   every value) - the C05 shards, filtered
  NumPy backend    element i of the result on object-dtype token arrays == the object-backend result (term identity;
                   every value, shapes bounded) - vv/npsym.py, filtered
  Awkward (+NumPy  BOUNDED run-time contracts against the object backend over the Engine D lattice, filtered; reported
  layouts)         separately and never counted as proved
"""
from __future__ import annotations

import re

from .. import common as C

# operation-name patterns per property (matched with re.search on the operation name used by the lattices / on the obligation id)
PATTERNS = {
    "C01": r".",
    "C02": r".",
    "C04": r"^to_|^like",
    "C09": r"boost|to_beta3",
    "C10": r"rotate",
    "C11": r"^(add|subtract|dot|cross|unit|scale|neg\dD|abs|transform)|^a[+\-@]b|^[-+]v|^v[*/]|\*v$|\*\*|numpy\.(absolute|cbrt|sqrt|square|power)|operator/(?!v[=!]=)|==scale|is-function-of-norm",
    "C12": r"equal|isclose|allclose|==w|!=w|a==b|a!=b|v==v|v!=v",
    "C13": r"^(phi|theta|eta|rho|mag|rho2|mag2|t|t2|tau|tau2|costheta|cottheta|beta|gamma|deltaphi|deltaangle)$|^is_",
}


def run(prop, report, coverage):
    from .. import engined as E, npsym, objsym
    from .. import arrays as AR
    from . import c05
    pat = re.compile(PATTERNS[prop])
    flt = (lambda name: bool(pat.search(name)))
    # ---- object backend (parametric, all values)
    ores = objsym.concolic_map(c05.shard, [(s, m) for s in objsym.systems() for m in (False, True)])
    o_bad = [(oid, d) for r in ores for oid, d in r[1] if flt(objsym.opname(oid.split("/", 1)[1]))]
    o_n = sum(sum(v for k, v in r[2].items() if flt(k)) for r in ores)
    if prop in ("C01", "C02"):
        # the in-place operators of the object backend are public operations too: their value must not depend on the storage of either
        # operand - the per-step contracts of C15 (in-place == functional form, every pair of coordinate systems, symbolic values)
        from . import c15
        ires = objsym.concolic_map(c15.shard, [(s, m) for s in objsym.systems() for m in (False, True)])
        o_bad += [(oid, d) for r in ires for oid, d in r[1] if "/inplace/" in oid]
        o_n += sum(r[0] for r in ires)
    if prop in ("C01", "C02"):
        # the named conversions (to_<system>, to_VectorND, like) with their keyword paths: the C04 lattice on symbolic values
        from . import c04
        cres = objsym.concolic_map(c04.shard, [(s, m) for s in objsym.systems() for m in (False, True)])
        o_bad += [(oid, d) for r in cres for oid, d in r[1]]
        o_n += sum(r[0] for r in cres)
    # ---- Numba object backend: static contract on the glue (kernel receives the coordinates of the signature it was looked up for)
    import os
    from .. import numbaglue
    ng, _sk = numbaglue.run(os.path.join(C.REPO, "src", "vector"))
    ng = [(oid, ok, d) for oid, ok, d in ng if flt(oid.rsplit("/", 1)[1].split("Type_")[-1].split("@")[0])]
    o_bad += [(f"{prop}/" + oid, d) for oid, ok, d in ng if not ok]
    o_n += len(ng)
    # ---- NumPy backend on token arrays (parametric, all values) and the bounded Engine D lattice, restricted to this property's operations
    E.OP_FILTER = npsym.OP_FILTER = flt
    try:
        shapes = ((3,), (2, 2))
        nres = C.pool_map(npsym.shard, [(s, m, shapes) for s in objsym.systems() for m in (False, True)])
        u, b = E.lattice(C.tier(), C.seed())
        dres = C.pool_map(E.unary_shard, u) + C.pool_map(E.binary_shard, b)
    finally:
        E.OP_FILTER = npsym.OP_FILTER = None
    n_bad = [(oid, d) for r in nres for p_, oid, d in r[1] if p_ == "C03"]
    n_n = sum(r[0] for r in nres)
    d_bad = [(oid, d) for r in dres for p_, oid, d in r[1] if p_ in ("C03", "C05")]
    d_n = sum(r[2].get("C03", 0) + r[2].get("C05", 0) for r in dres)
    # explicit probes of corners kept out of the lattice (listed as known findings) that belong to this property
    d_bad += [(oid, d) for p_, oid, ok, d in E.probes() if p_ == prop and not ok]
    groups = {}
    for kind, items in (("object", o_bad), ("numpy-symbolic", n_bad), ("array-lattice", d_bad)):
        for oid, d in items:
            new = f"{prop}/api-glue:{kind}/" + oid.split("/", 1)[1]
            groups.setdefault((kind, new.split("[")[0]), []).append((new, oid, d))
    nv = nk = 0
    for (kind, g), items in sorted(groups.items()):
        new, orig, d = items[0]
        kf = C.match_known(prop, new, dict(detail=str(d)))
        if kf:
            nk += len(items)
            report.known_finding(new, kf["what"])
            continue
        nv += len(items)
        report.violation(new, dict(kind="public-api-glue", backend=kind, failing_points=len(items), first=dict(obligation=new, original=orig, detail=d),
                                   others=[x[0] for x in items[1:6]], replay_handler="vv.props.glue_part:replay"), has_input="/numba-glue/" not in new)
    if o_n + n_n == 0:
        report.error(f"{prop}: the public-API glue part generated no obligations (operation filter matches nothing)")
    coverage["public_api_glue"] = dict(
        operations_pattern=PATTERNS[prop],
        object_backend=dict(obligations=o_n, failed=len(o_bad), shards_re_run_with_concrete_values=sum(1 for r in ores if r[-1]), how="real methods/operators of the object backend on opaque tokens == live table entry in contract order (term identity, all values)"),
        numpy_backend_symbolic=dict(obligations=n_n, failed=len(n_bad), not_evaluable=sum(r[2] for r in nres), shapes=[list(x) for x in shapes],
                                    how="real NumPy backend on object-dtype token arrays: element i == object-backend result (term identity, all values; shapes bounded)"),
        array_lattice_bounded=dict(evaluations=d_n, failed=len(d_bad), how="BOUNDED run-time contracts against the object backend over the Engine D lattice (NumPy + Awkward layouts); "
                                                                           "not counted in obligations/discharged"),
        violations=nv, known_findings=nk)
    # the parametric glue obligations are part of this property's proof obligations
    coverage["obligations"] = coverage.get("obligations", 0) + o_n + n_n - 0
    coverage["discharged"] = coverage.get("discharged", 0) + (o_n - len(o_bad)) + (n_n - len(n_bad))
    coverage.setdefault("by_backend", {})["term identity on symbolic evaluation of the real object / NumPy backends (public-API glue)"] = (o_n - len(o_bad)) + (n_n - len(n_bad))
    return nv


def post(prop):
    def f(report, results, coverage):
        run(prop, report, coverage)
    return f


def replay(prop, rp, path):
    oid = rp["first"]["original"]
    kind = rp.get("backend")
    rp2 = dict(rp)
    rp2["first"] = dict(rp["first"], obligation=oid)
    if "/numba-glue/" in oid:
        import os
        from .. import numbaglue
        ng, _ = numbaglue.run(os.path.join(C.REPO, "src", "vector"))
        still = [x for x in ng if not x[1] and oid.endswith(x[0])]
        if still:
            print("still failing:", still[0])
            print(f"VIOLATION property={prop} replay={path} no-failing-input-found")
            return 1
        print("obligation holds on this tree")
        return 0
    if kind == "object" and any(x in oid for x in ("/conversion-glue/", "/imputed/", "/roundtrip", "/like", "/to_Vector", "/projection", "/embedding")) and "C05/" not in oid:
        from . import c04
        return c04.replay(prop, rp2, path)
    if kind == "object" and "/inplace/" in oid:
        from . import c15
        return c15.replay(prop, rp2, path)
    if kind == "object":
        from . import c05
        return c05.replay(prop, rp2, path)
    from . import engined_prop
    return engined_prop.replay(prop, rp2, path)
