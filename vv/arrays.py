"""Engine D - bounded run-time contracts for the NumPy / Awkward glue (DESIGN 2.5).  Stand-in, never counted as proved.

The contracts are the statements of C03 / C16 / C18 (and the array halves of C05) evaluated at run time around calls of the
*real* public API, driven over an enumerated configuration lattice (operation x coordinate system x flavor x backend x
layout x operand pairing) with small arrays of well-conditioned values.  The reference for every element is the object
backend (whose methods are tied to the proved compute contracts by C05/C01/C02).
"""
from __future__ import annotations

import copy
import math
import random

import numpy as np

import vector

try:
    import awkward as ak
except Exception:          # pragma: no cover
    ak = None

AZ = {"xy": ("x", "y"), "rhophi": ("rho", "phi")}
LO = {"z": ("z",), "theta": ("theta",), "eta": ("eta",)}
TE = {"t": ("t",), "tau": ("tau",)}
MOM = {"x": "px", "y": "py", "rho": "pt", "z": "pz", "t": "E", "tau": "mass"}
COORDS = {"x", "y", "rho", "phi", "z", "theta", "eta", "t", "tau", "px", "py", "pt", "pz", "E", "e", "energy", "M", "m", "mass"}


def systems(dims=(2, 3, 4)):
    for a in AZ:
        if 2 in dims:
            yield (a,)
        for l in LO:
            if 3 in dims:
                yield (a, l)
            for t in TE:
                if 4 in dims:
                    yield (a, l, t)


def names_of(s):
    return list(AZ[s[0]]) + (list(LO[s[1]]) if len(s) > 1 else []) + (list(TE[s[2]]) if len(s) > 2 else [])


def sysof(v):
    """coordinate system of a vector; ("inconsistent: ...",) when the value claims a dimension whose coordinates it does not carry"""
    from vector._methods import (AzimuthalXY, LongitudinalEta, LongitudinalTheta, LongitudinalZ, TemporalT, _aztype, _ltype, _ttype)
    try:
        s = ["xy" if _aztype(v) is AzimuthalXY else "rhophi"]
        d = vector.dim(v)
        if d >= 3:
            lt = _ltype(v)
            s.append("z" if lt is LongitudinalZ else "theta" if lt is LongitudinalTheta else "eta")
        if d == 4:
            s.append("t" if _ttype(v) is TemporalT else "tau")
    except Exception as e:
        return (f"inconsistent: {type(e).__name__}: {str(e)[:120]}",)
    return tuple(s)


def one(system, rng):
    """well-conditioned stored coordinates of one vector (timelike, forward, off-axis, away from pi)"""
    v = {}
    if system[0] == "xy":
        v["x"] = rng.choice([-1, 1]) * rng.uniform(0.5, 3.0)
        v["y"] = rng.choice([-1, 1]) * rng.uniform(0.5, 3.0)
        rho = math.hypot(v["x"], v["y"])
    else:
        v["rho"] = rng.uniform(0.5, 3.0)
        v["phi"] = rng.choice([-1, 1]) * rng.uniform(0.2, 2.9)
        rho = v["rho"]
    zz = 0.0
    if len(system) > 1:
        if system[1] == "z":
            v["z"] = rng.choice([-1, 1]) * rng.uniform(0.3, 3.0)
            zz = v["z"]
        elif system[1] == "theta":
            v["theta"] = rng.uniform(0.4, 2.7)
            zz = rho / math.tan(v["theta"])
        else:
            v["eta"] = rng.choice([-1, 1]) * rng.uniform(0.1, 1.5)
            zz = rho * math.sinh(v["eta"])
    if len(system) > 2:
        mag = math.sqrt(rho * rho + zz * zz)
        if system[2] == "t":
            v["t"] = mag + rng.uniform(0.6, 2.5)
        else:
            v["tau"] = rng.uniform(0.6, 2.5)
    return v


def one_int(system, rng):
    """integer-valued stored coordinates of one vector (timelike, forward, off-axis) - for arrays with integer-typed columns"""
    v = {}
    if system[0] == "xy":
        v["x"] = rng.choice([-1, 1]) * rng.choice([1, 2, 3])
        v["y"] = rng.choice([-1, 1]) * rng.choice([1, 2, 3])
        rho = math.hypot(v["x"], v["y"])
    else:
        v["rho"] = rng.choice([1, 2, 3])
        v["phi"] = rng.choice([-3, -2, -1, 1, 2, 3])
        rho = v["rho"]
    zz = 0.0
    if len(system) > 1:
        if system[1] == "z":
            v["z"] = rng.choice([-1, 1]) * rng.choice([1, 2, 3])
            zz = v["z"]
        elif system[1] == "theta":
            v["theta"] = rng.choice([1, 2])
            zz = rho / math.tan(v["theta"])
        else:
            v["eta"] = rng.choice([-2, -1, 1, 2])
            zz = rho * math.sinh(v["eta"])
    if len(system) > 2:
        if system[2] == "t":
            v["t"] = int(math.ceil(math.hypot(rho, zz))) + rng.choice([1, 2, 3])
        else:
            v["tau"] = rng.choice([1, 2, 3])
    return v


def one_spacelike(system, rng):
    """a spacelike 4D vector (t^2 < |p|^2; tau-stored: negative tau with |tau| <= |p|); identical to one() below four dimensions"""
    v = one(system, rng)
    if len(system) > 2:
        o = vector.obj(**{k: v[k] for k in names_of(system)[:-1]})
        mag = float(o.mag)
        if system[2] == "t":
            v["t"] = mag * rng.uniform(0.2, 0.8)
        else:
            v["tau"] = -mag * rng.uniform(0.2, 0.8)
    return v


def obj_of(system, mom, vals):
    return vector.obj(**{(MOM.get(n, n) if mom else n): vals[n] for n in names_of(system)})


NUMPY_LAYOUTS = ["np()", "np(3)", "np(2,2)", "np(3)-int", "np(0)", "np(1)", "np(2,1,2)", "np(3)-spacelike", "np(3)-strided", "np(3)-readonly", "np(3,1)", "np(1,3)", "np(3)-bigendian"]
AWK_LAYOUTS = ["ak-flat", "ak-jagged", "ak-nested", "ak-option", "ak-record", "ak-rawzip", "ak-regular", "ak-flat-int", "ak-empty", "ak-one", "ak-jagged-spacelike", "ak-record-hits", "ak-record-label", "ak-masked", "ak-padnone", "ak-indexed", "ak-record-at2"]


def nest(layout):
    """shape of the nested python structure (lists of element slots; None = missing)"""
    return {"np()": "E", "np(3)": ["E", "E", "E"], "np(2,2)": [["E", "E"], ["E", "E"]],
            "ak-flat": ["E", "E", "E"], "ak-jagged": [["E", "E"], [], ["E"]], "ak-nested": [[["E"], ["E", "E"]], [], [[]]],
            "ak-option": [["E", None], None, ["E"]], "ak-record": "E", "object": "E", "ak-rawzip": [["E", "E"], [], ["E"]], "ak-regular": [["E", "E", "E"], ["E", "E", "E"]], "np(3)-int": ["E", "E", "E"], "ak-flat-int": ["E", "E", "E"],
            "np(0)": [], "np(1)": ["E"], "np(2,1,2)": [[["E", "E"]], [["E", "E"]]], "ak-empty": [], "ak-one": [["E"]],
            "np(3)-spacelike": ["E", "E", "E"], "ak-jagged-spacelike": [["E", "E"], [], ["E"]], "ak-record-hits": "E", "ak-record-label": "E", "np(3)-strided": ["E", "E", "E"], "np(3)-readonly": ["E", "E", "E"], "np(3,1)": [["E"], ["E"], ["E"]], "np(1,3)": [["E", "E", "E"]], "np(3)-bigendian": ["E", "E", "E"],
            "ak-record-at2": "E", "ak-masked": [["E", "E"], None, ["E"]], "ak-padnone": [["E", "E", None], [None, None, None], ["E", None, None]], "ak-indexed": [["E"], ["E", "E"], []]}[layout]


def fill(struct, f):
    if struct == "E":
        return f()
    if struct is None:
        return None
    return [fill(s, f) for s in struct]


def build(layout, system, mom, rng, extras=False):
    """returns (vector in the requested backend/layout, nested structure of stored-coordinate dicts)"""
    struct = fill(nest(layout), (lambda: one_int(system, rng)) if layout.endswith("-int") else (lambda: one_spacelike(system, rng)) if layout.endswith("-spacelike") else (lambda: one(system, rng)))
    names = names_of(system)
    key = (lambda n: MOM.get(n, n)) if mom else (lambda n: n)
    if layout == "np(3)-int":
        return vector.array({key(n): np.array([e[n] for e in struct], dtype=np.int64) for n in names}), struct
    if layout == "ak-flat-int":
        return vector.zip({key(n): ak.Array(np.array([e[n] for e in struct], dtype=np.int64)) for n in names}), struct
    if layout == "object":
        return obj_of(system, mom, struct), struct
    if layout == "np(3)-bigendian":
        # columns in non-native byte order (data read from big-endian files)
        return vector.array({key(n): np.array([e[n] for e in struct], dtype=">f8") for n in names}), struct
    if layout == "np(3)-strided":
        # a non-contiguous view: every second element of a longer array
        filler = one(system, rng)
        long_ = [x for e in struct for x in (e, filler)]
        big = vector.array({key(n): np.array([e[n] for e in long_], dtype=np.float64) for n in names})
        return big[::2], struct
    if layout.startswith("np"):
        cols = {key(n): np.array(struct_map(struct, lambda e, n=n: e[n]) if layout != "np()" else struct[n], dtype=np.float64) for n in names}
        arr = vector.array(cols)
        if layout == "np(3)-readonly":
            arr.flags.writeable = False
        return arr, struct
    if layout in ("ak-masked", "ak-padnone", "ak-indexed"):
        full = [[one(system, rng), one(system, rng)], [one(system, rng)], [one(system, rng)]] if layout == "ak-masked" else None
        if layout == "ak-masked":
            base = vector.Array(struct_map(full, lambda e: {key(n): e[n] for n in names}))
            arr = ak.mask(base, [True, False, True])                      # option type made by masking whole lists
            struct = [full[0], None, full[2]]
        elif layout == "ak-padnone":
            lists = [[one(system, rng), one(system, rng)], [], [one(system, rng)]]
            base = vector.Array(struct_map(lists, lambda e: {key(n): e[n] for n in names}))
            arr = ak.pad_none(base, 3)                                    # option type made by padding (regular-sized lists of option records)
            struct = [l + [None] * (3 - len(l)) for l in lists]
        else:
            lists = [[], [one(system, rng)], [one(system, rng), one(system, rng)]]
            base = vector.Array(struct_map(lists, lambda e: {key(n): e[n] for n in names}))
            arr = base[[1, 2, 0]]                                         # carried / indexed after an integer-array slice
            struct = [lists[1], lists[2], lists[0]]
        return arr, struct
    if layout == "ak-empty":
        # an empty array of vectors still has the record type of its vectors
        return vector.zip({key(n): ak.Array(np.zeros(0)) for n in names}), struct
    if layout in ("ak-record-hits", "ak-record-label"):
        # a record carrying exactly one extra field, list- or string-valued
        arr = vector.Array([{key(n): struct[n] for n in names}])
        arr = ak.with_field(arr, ak.Array([[21, 22]]), "hits") if layout.endswith("hits") else ak.with_field(arr, ak.Array(["mu"]), "label")
        return arr[0], struct
    if layout == "ak-record-at2":
        # a record picked out of the middle / end of a longer array (layout offset > 0), with extra fields that differ from row to row
        rows = [one(system, rng), one(system, rng), struct]
        recs = [dict({key(n): e[n] for n in names}, **({"charge": i - 1, "weight": 0.5 * (i + 1)} if extras else {})) for i, e in enumerate(rows)]
        return vector.Array(recs)[2], struct
    if layout == "ak-record":
        rec = {key(n): struct[n] for n in names}
        if extras:
            rec.update(charge=3, weight=0.25)
        arr = vector.Array([rec])
        if extras == "rich":
            arr = ak.with_field(ak.with_field(arr, ak.Array([[1, 2, 3]]), "hits"), ak.Array(["mu"]), "label")
        return arr[0], struct

    if layout == "ak-rawzip":
        # the usual user-side construction: ak.zip of columns under their (momentum) spellings, named record, vector behavior attached;
        # unlike vector.zip / vector.Array the field names are NOT normalised to the geometric ones
        import vector.backends.awkward as VA
        rkey = key
        if mom and len(system) == 3:
            # every temporal spelling is used by some system: E / e / energy and M / m / mass in turn
            idx = (["xy", "rhophi"].index(system[0]) * 3 + ["z", "theta", "eta"].index(system[1])) % 3
            tsp = {"t": ["E", "e", "energy"][idx], "tau": ["M", "m", "mass"][idx]}
            rkey = lambda n: tsp.get(n, MOM.get(n, n))
        cols = {rkey(n): ak.Array(struct_map(struct, lambda e, n=n: e[n])) for n in names}
        if extras:
            cols["charge"] = ak.Array(struct_map(struct, lambda e: int(round(e[names[0]] * 7)) % 5 - 2))
            cols["weight"] = ak.Array(struct_map(struct, lambda e: e[names[1]] * 0.5))
        return ak.zip(cols, with_name=f"{'Momentum' if mom else 'Vector'}{len(system) + 1}D", behavior=VA.behavior), struct

    def conv(e):
        r = {key(n): e[n] for n in names}
        if extras:
            r.update(charge=int(round(e[names[0]] * 7)) % 5 - 2, weight=e[names[1]] * 0.5)
        return r
    arr = vector.Array(struct_map(struct, conv))
    if layout == "ak-regular":
        arr = ak.to_regular(arr, axis=1)          # fixed-size inner dimension: type "2 * 3 * Vector..."
    if extras == "rich":
        # list-valued and string-valued extra fields (attached afterwards: vector.Array only accepts numeric record fields)
        def rich(e, what):
            k = int(abs(e[names[0]]) * 3) % 3
            return list(range(k)) if what == "hits" else ("mu" if k else "e")
        arr = ak.with_field(arr, ak.Array(struct_map(struct, lambda e: rich(e, "hits"))), "hits")
        arr = ak.with_field(arr, ak.Array(struct_map(struct, lambda e: rich(e, "label"))), "label")
    return arr, struct


def struct_map(struct, f):
    if struct is None:
        return None
    if isinstance(struct, dict):
        return f(struct)
    return [struct_map(s, f) for s in struct]


def struct_zip(a, b, f):
    """combine two nested structures of identical shape (or broadcast a single element against a structure)"""
    if a is None or b is None:
        return None
    if isinstance(a, dict) and isinstance(b, dict):
        return f(a, b)
    if isinstance(a, dict):
        return [struct_zip(a, y, f) for y in b]
    if isinstance(b, dict):
        return [struct_zip(x, b, f) for x in a]
    if len(a) != len(b):
        raise ValueError("structures do not match")
    return [struct_zip(x, y, f) for x, y in zip(a, b)]


def to_nested(x):
    """nested python lists of plain numbers / bools from a scalar-valued result"""
    if ak is not None and isinstance(x, (ak.Array, ak.Record)):
        return ak.to_list(x)
    if isinstance(x, np.ndarray):
        return x.tolist()
    if isinstance(x, (np.generic,)):
        return x.item()
    return x


def close(a, b, rtol=1e-9, atol=1e-11):
    if a is None or b is None:
        return a is None and b is None
    if isinstance(a, (list, tuple)) or isinstance(b, (list, tuple)):
        if not isinstance(a, (list, tuple)) or not isinstance(b, (list, tuple)) or len(a) != len(b):
            return False
        return all(close(x, y, rtol, atol) for x, y in zip(a, b))
    if isinstance(a, (bool, np.bool_)) or isinstance(b, (bool, np.bool_)):
        return bool(a) == bool(b)
    try:
        a, b = float(a), float(b)
    except (TypeError, ValueError):
        return a == b
    if math.isnan(a) or math.isnan(b):
        return math.isnan(a) and math.isnan(b)
    if math.isinf(a) or math.isinf(b):
        return a == b
    return abs(a - b) <= atol + rtol * max(abs(a), abs(b))


def snapshot(v):
    """bit-for-bit picture of an operand: coordinates, coordinate system, flavor, shape, extra fields"""
    if isinstance(v, vector.backends.object.VectorObject):
        return ("object", type(v).__name__, tuple((type(getattr(v, g)).__name__, tuple(getattr(v, g).elements)) for g in ("azimuthal", "longitudinal", "temporal") if hasattr(v, g)))
    if isinstance(v, np.ndarray):
        return ("numpy", type(v).__name__, v.dtype.descr, v.shape, v.tobytes())
    if ak is not None and isinstance(v, (ak.Array, ak.Record)):
        return ("awkward", type(v).__name__, str(ak.type(v)), ak.to_list(v), tuple(ak.fields(v)))
    return ("other", repr(v))


def ang_close(a, b):
    """angles compared modulo 2 pi (phi = -pi and +pi denote the same direction)"""
    if a is None or b is None:
        return a is None and b is None
    if isinstance(a, (list, tuple)):
        return isinstance(b, (list, tuple)) and len(a) == len(b) and all(ang_close(x, y) for x, y in zip(a, b))
    if isinstance(b, (list, tuple)):
        return False
    try:
        d = (float(a) - float(b)) / (2 * math.pi)
    except (TypeError, ValueError):
        return False
    return abs(d - round(d)) < 1e-9
