"""Static glue contract for the Numba object backend (src/vector/backends/_numba_object.py).

Numba's typing/lowering pipeline is out of reach (C07 is not applicable), but the *glue* its overloads are written in is plain
Python with a regular shape, and one contract on it can be decided syntactically for every overload that has that shape:

    signature = (numba_Ktype(A), ...)                                   # possibly chosen under `if groupname == "...":`
    function, *returns = _from_signature(name, module, signature)       # kernel looked up for signature S
    coordNM = getcoordI[numba_Ktype(A)]                                 # accessor of coordinate I of part K of operand A
    def impl(...):  ... function(numpy, <scalars>, coordNM(A'), ...)    # kernel applied (possibly under the same `if`)

    contract:  the coordinate arguments handed to `function` are, in order, exactly the coordinates of the signature S
               (azimuthal part -> its coordinates 1, 2; longitudinal / temporal part -> coordinate 1), each read from the operand
               the signature element names, through an accessor built for the same part of the same operand.

A mismatch means a kernel compiled for one coordinate system receives the coordinates of another (wrong numbers, no error).
The analysis is path-sensitive in the simple way the file needs: statements under `if <test>` branches are paired when their tests
do not contradict each other (same left-hand side compared with different constants / different issubclass tests).  Overloads that
do not have this shape, or whose pairing is ambiguous, are counted as not analysed."""
from __future__ import annotations

import ast
import os

KIND = {"numba_aztype": "azimuthal", "numba_ltype": "longitudinal", "numba_ttype": "temporal"}
NCOORD = {"azimuthal": 2, "longitudinal": 1, "temporal": 1}


def _kind_call(node):
    if isinstance(node, ast.Call) and isinstance(node.func, ast.Name) and node.func.id in KIND and len(node.args) == 1 and isinstance(node.args[0], ast.Name):
        return KIND[node.func.id], node.args[0].id
    return None


def _sig_of(node):
    if isinstance(node, ast.Tuple):
        sig = [_kind_call(e) for e in node.elts]
        return None if any(s is None for s in sig) else sig
    return None


def _cond_key(test):
    """(subject, value) for tests of the form  X == const  /  issubclass(X, C)  - used to detect contradicting branches"""
    if isinstance(test, ast.Compare) and len(test.ops) == 1 and isinstance(test.ops[0], ast.Eq):
        return ast.unparse(test.left), ast.unparse(test.comparators[0])
    if isinstance(test, ast.Call) and isinstance(test.func, ast.Name) and test.func.id in ("issubclass", "isinstance") and len(test.args) == 2:
        return ast.unparse(test.args[0]), ast.unparse(test.args[1])
    return ast.unparse(test), "True"


def _compatible(c1, c2):
    d = dict(c1)
    return all(d.get(k, v) == v for k, v in c2)


def _walk(stmts, ctx, rec):
    for st in stmts:
        if isinstance(st, ast.If):
            chain, node = [], st
            while True:
                chain.append((node.test, node.body))
                if len(node.orelse) == 1 and isinstance(node.orelse[0], ast.If):
                    node = node.orelse[0]
                else:
                    tail = node.orelse
                    break
            for test, body in chain:
                _walk(body, ctx + (_cond_key(test),), rec)
            if tail:
                _walk(tail, ctx + (("<else>" + ast.unparse(chain[0][0]), "True"),), rec)
        elif isinstance(st, ast.Assign) and len(st.targets) == 1:
            t, v = st.targets[0], st.value
            if isinstance(t, ast.Name) and _sig_of(v) is not None:
                rec["sigvars"].append((ctx, t.id, _sig_of(v)))
            elif isinstance(v, ast.Call) and isinstance(v.func, ast.Name) and v.func.id == "_from_signature" and len(v.args) >= 3:
                fname = t.elts[0].id if isinstance(t, ast.Tuple) and isinstance(t.elts[0], ast.Name) else (t.id if isinstance(t, ast.Name) else None)
                rec["lookups"].append((ctx, fname, v.args[2]))
            elif isinstance(t, ast.Name) and isinstance(v, ast.Subscript) and isinstance(v.value, ast.Name) and v.value.id in ("getcoord1", "getcoord2") and _kind_call(v.slice):
                rec["coords"].append((ctx, t.id, (int(v.value.id[-1]),) + _kind_call(v.slice)))
        elif isinstance(st, ast.FunctionDef):
            rec["impls"].append((ctx, st))
        elif isinstance(st, (ast.With, ast.Try)):
            _walk(st.body, ctx, rec)


def analyse(path):
    """returns (obligations [(id, ok, detail)], not_analysed [names])"""
    tree = ast.parse(open(path).read())
    out, skipped = [], []
    overloaders = [(f"{outer.name}.{fn.name}" if outer is not fn else fn.name, fn)
                   for outer in tree.body if isinstance(outer, ast.FunctionDef)
                   for fn in ([outer] + [n for n in outer.body if isinstance(n, ast.FunctionDef)])]
    for qual, fn in overloaders:
        rec = dict(sigvars=[], lookups=[], coords=[], impls=[])
        _walk(fn.body, (), rec)
        if not rec["lookups"]:
            continue
        for lctx, fname, sigexpr in rec["lookups"]:
            if fname is None:
                skipped.append(qual)
                continue
            # candidate signatures for this lookup
            if _sig_of(sigexpr) is not None:
                cands = [(lctx, _sig_of(sigexpr))]
            elif isinstance(sigexpr, ast.Name):
                cands = [(c, s) for c, n, s in rec["sigvars"] if n == sigexpr.id and _compatible(c, lctx)]
            else:
                cands = []
            if not cands:
                skipped.append(qual)
                continue
            calls = []
            for ictx, impl in rec["impls"]:
                for c in ast.walk(impl):
                    if isinstance(c, ast.Call) and isinstance(c.func, ast.Name) and c.func.id == fname:
                        calls.append((ictx, c))
            if not calls:
                skipped.append(qual)
                continue
            for ictx, call in calls:
                sigs = [(c, s) for c, s in cands if _compatible(c, ictx)]
                if len(sigs) != 1:
                    skipped.append(f"{qual}@{call.lineno}")
                    continue
                sctx, sig = sigs[0]
                binds = {}
                ambiguous = False
                for cctx, name, b in rec["coords"]:
                    if _compatible(cctx, ictx) and _compatible(cctx, sctx):
                        if name in binds and binds[name] != b:
                            ambiguous = True
                        binds[name] = b
                if ambiguous:
                    skipped.append(f"{qual}@{call.lineno}")
                    continue
                got = []
                for a in call.args:
                    if isinstance(a, ast.Call) and isinstance(a.func, ast.Name) and a.func.id in binds and len(a.args) == 1 and isinstance(a.args[0], ast.Name):
                        idx, kind, operand = binds[a.func.id]
                        got.append((kind, idx, operand, a.args[0].id))
                expected = [(kind, i + 1, operand, operand) for kind, operand in sig for i in range(NCOORD[kind])]
                where = ",".join(f"{k}={v}" for k, v in ictx) or "-"
                out.append((f"numba-glue/kernel-receives-the-coordinates-of-its-signature/{qual}@{call.lineno}", got == expected,
                            dict(branch=where, signature=[f"{k}({o})" for k, o in sig], passed=[f"{k}.{i} of {o2} via accessor for {o}" for k, i, o, o2 in got])))
    return out, sorted(set(skipped))


def run(repo_src):
    return analyse(os.path.join(repo_src, "backends", "_numba_object.py"))
