"""Parametric symbolic evaluation of the **NumPy backend** (an extension of DESIGN 2.2 to backends/numpy.py).

NumPy structured arrays with `object` fields hold opaque tokens; `VectorNumpy.lib` / `VectorObject.lib` are replaced (in the
worker process only) by a library that builds terms element-wise.  The real `vector.array`, `.elements`, `dispatch`,
`_wrap_result`, broadcasting against objects and scalar arrays, `__getitem__` then run on symbols, and element i of every
result is compared by *term identity* with the object-backend result for element i - i.e. for every value, the array
shapes being the only bounded dimension.

What this extraction changes, exactly: `backends.numpy._is_type_safe` is made to accept the object dtype (the real check
only admits integer/floating dtypes); everything else is the code that runs.  Operations whose compute functions apply
Python comparison operators to arrays (`==`, `!=`, `<`, `>` on columns: equal, not_equal, the is_* predicates, and the
`(z != 0) * inf` guard of eta-from-z) cannot be evaluated on object arrays (NumPy converts the comparison result to bool):
they are reported as `not-evaluable` and stay covered only by the bounded Engine D lattice.
"""
from __future__ import annotations

import operator

import numpy as np

from . import objsym as O
from .objsym import T


class ArrLib:
    pi = T("pi")
    inf = float("inf")
    nan = float("nan")

    def __getattr__(self, name):
        if name.startswith("__"):
            raise AttributeError(name)

        def f(*a, **k):
            kws = [T(f"{kk}={vv!r}") for kk, vv in sorted(k.items())]
            if any(isinstance(x, np.ndarray) for x in a):
                uf = np.frompyfunc(lambda *xs: T(name, *xs, *kws), len(a), 1)
                return uf(*a)
            return T(name, *a, *kws)
        return f


ARRLIB = ArrLib()
OP_FILTER = None        # optional predicate on operation names (set before the pool forks)
_installed = False


def install():
    global _installed
    if _installed:
        return
    _installed = True
    import vector.backends.numpy as N
    import vector.backends.object as OB
    N.VectorNumpy.lib = ARRLIB
    N.CoordinatesNumpy.lib = ARRLIB
    OB.VectorObject.lib = ARRLIB
    N._is_type_safe = lambda array: True
    O._installed = True


def col(name, shape):
    n = int(np.prod(shape)) if shape else 1
    a = np.empty(n, dtype=object)
    for i in range(n):
        a[i] = T(f"{name}{i}")
    return a.reshape(shape)


def make_array(system, mom, tag, shape):
    import vector
    names = O.names_of(system)
    return vector.array({(O.MOM.get(n, n) if mom else n): col(f"{n}{tag}_", shape) for n in names})


def element_obj(system, mom, tag, i):
    import vector
    return vector.obj(**{(O.MOM.get(n, n) if mom else n): T(f"{n}{tag}_{i}") for n in O.names_of(system)})


def flat(x):
    return list(np.asarray(x, dtype=object).reshape(-1))


def shard(args):
    """unary and binary lattice for one (system, flavor)"""
    from . import engined as E
    import vector
    system, mom, shapes = args[:3]
    parts = args[3] if len(args) > 3 else ("unary", "binary")
    install()
    F = E.Fails()
    skipped = 0
    d = len(system) + 1
    k, ang = T("k"), T("ang")

    def ops_unary():
        ops = [(p, lambda v, p=p: getattr(v, p)) for p in E.PLANAR_PROPS]
        ops += [("unit", lambda v: v.unit()), ("scale", lambda v: v.scale(k)), ("scale2D", lambda v: v.scale2D(k)), ("rotateZ", lambda v: v.rotateZ(ang)),
                ("-v", lambda v: -v), ("v*k", lambda v: v * k), ("k*v", lambda v: k * v), ("v/k", lambda v: v / k),
                ("v*=k", E._inplace(operator.imul, k)), ("v/=k", E._inplace(operator.itruediv, k)), ("abs", lambda v: abs(v)), ("v**2", lambda v: v ** 2),
                ("to_Vector2D", lambda v: v.to_Vector2D()), ("to_Vector3D", lambda v: v.to_Vector3D()), ("to_Vector4D", lambda v: v.to_Vector4D()),
                ("to_xy", lambda v: v.to_xy()), ("to_rhophi", lambda v: v.to_rhophi()), ("to_xyzt(z,t)", lambda v: v.to_xyzt(z=T("kz"), t=T("kt"))),
                ("to_rhophietatau(eta,tau)", lambda v: v.to_rhophietatau(eta=T("ke"), tau=T("ktau"))), ("to_Vector4D(z,t)", lambda v: v.to_Vector4D(z=T("kz"), t=T("kt"))),
                ("to_Vector3D(theta)", lambda v: v.to_Vector3D(theta=T("kth"))), ("neg2D", lambda v: v.neg2D),
                ("transform2D", lambda v: v.transform2D({n: T(n) for n in ("xx", "xy", "yx", "yy")}))]
        if mom:
            ops += [(p, lambda v, p=p: getattr(v, p)) for kk in range(2, d + 1) for p in E.MOM_PROPS[kk]]
        if d >= 3:
            ops += [(p, lambda v, p=p: getattr(v, p)) for p in E.SPATIAL_PROPS]
            ops += [("scale3D", lambda v: v.scale3D(k)), ("rotateX", lambda v: v.rotateX(ang)), ("rotateY", lambda v: v.rotateY(ang)),
                    ("rotate_euler", lambda v: v.rotate_euler(T("a1"), T("a2"), T("a3"), "yzx")), ("rotate_nautical", lambda v: v.rotate_nautical(T("a1"), T("a2"), T("a3"))),
                    ("rotate_quaternion", lambda v: v.rotate_quaternion(T("u"), T("i"), T("j"), T("kq"))), ("to_xyz", lambda v: v.to_xyz()), ("to_rhophitheta", lambda v: v.to_rhophitheta()),
                    ("to_xyeta", lambda v: v.to_xyeta())]
        if d == 4:
            ops += [(p, lambda v, p=p: getattr(v, p)) for p in E.LORENTZ_PROPS]
            ops += [("scale4D", lambda v: v.scale4D(k)), ("boostX(beta)", lambda v: v.boostX(beta=T("b"))), ("boostY(gamma)", lambda v: v.boostY(gamma=T("g"))),
                    ("boostZ(beta)", lambda v: v.boostZ(beta=T("b"))), ("to_beta3", lambda v: v.to_beta3()), ("to_xyzt", lambda v: v.to_xyzt()), ("to_rhophietatau", lambda v: v.to_rhophietatau())]
        return ops

    def compare(tag, res, exp_list, shape):
        """res: array-backend result; exp_list: object results per element (flat order)"""
        f = exp_list[0]
        if isinstance(f, vector.Vector):
            ok_cls = isinstance(res, vector.backends.numpy.VectorNumpy) and O.sysof(f) == _sys(res) and isinstance(res, vector.Momentum) == O.is_mom(f) and res.shape == shape
            F.check("C03", f"symbolic-numpy/class-system-flavor-shape/{tag}", ok_cls, dict(got=(type(res).__name__, getattr(res, "shape", None)), expected=(type(f).__name__, shape)))
            if not ok_cls:
                return
            for n in O.names_of(O.sysof(f)):
                got = flat(res[n])
                exp = [getattr(o, n) for o in exp_list]
                F.check("C03", f"symbolic-numpy/element-equals-object-result/{n}/{tag}", len(got) == len(exp) and all(O.same(a, b) for a, b in zip(got, exp)),
                        dict(got=repr(got[-1])[:140], expected=repr(exp[-1])[:140]))
        else:
            got = flat(res)
            F.check("C03", f"symbolic-numpy/element-equals-object-result/{tag}", len(got) == len(exp_list) and all(O.same(a, b) for a, b in zip(got, exp_list)) and np.shape(res) == shape,
                    dict(got=repr(got[-1])[:140], expected=repr(exp_list[-1])[:140]))

    for shape in shapes:
        n_el = int(np.prod(shape))
        sid = f"[{','.join(system)}|{'mom' if mom else 'gen'}|shape{shape}]"
        v = make_array(system, mom, "1", shape)
        objs = [element_obj(system, mom, "1", i) for i in range(n_el)]
        for name, op in (ops_unary() if "unary" in parts else ()):
            if OP_FILTER is not None and not OP_FILTER(name):
                continue
            tag = name + sid
            try:
                with np.errstate(all="ignore"):
                    exp = [op(o) for o in objs]
            except Exception:
                continue
            try:
                with np.errstate(all="ignore"):
                    res = op(v)
            except TypeError as e:
                if "symbolic value inspected" in str(e):
                    skipped += 1
                    continue
                F.check("C03", f"symbolic-numpy/defined/{tag}", False, f"TypeError: {str(e)[:140]}")
                continue
            except Exception as e:
                F.check("C03", f"symbolic-numpy/defined/{tag}", False, f"{type(e).__name__}: {str(e)[:140]}")
                continue
            compare(tag, res, exp, shape)
        # integer indexing returns the element as the equivalent object (C19, for every value)
        for i in ((0, n_el - 1) if "unary" in parts else ()):
            idx = tuple(int(j) for j in np.unravel_index(i, shape))
            try:
                o = v[idx if len(idx) > 1 else idx[0]]
                F.check("C03", f"symbolic-numpy/integer-index/{i}{sid}", type(o) is type(objs[i]) and O.sysof(o) == O.sysof(objs[i]) and all(a is b or O.same(a, b) for a, b in zip(O.coords(o), O.coords(objs[i]))))
            except Exception as e:
                F.check("C03", f"symbolic-numpy/integer-index/{i}{sid}", False, f"{type(e).__name__}: {str(e)[:120]}")
        # ... also when the array was built from an explicit structured dtype whose fields are in a non-canonical order
        if "unary" in parts:
            names_ = O.names_of(system)
            keyf = (lambda n: O.MOM.get(n, n)) if mom else (lambda n: n)
            for oname, order in (("reversed", list(reversed(names_))), ("rotated", names_[1:] + names_[:1])):
                try:
                    raw = np.empty(shape, dtype=[(keyf(n), object) for n in order])
                    for n in names_:
                        raw[keyf(n)] = col(f"{n}1_", shape)
                    vr = vector.array(raw)
                    ok_sys = _sys(vr) == tuple(system) and isinstance(vr, vector.Momentum) == mom
                    F.check("C03", f"symbolic-numpy/reordered-fields/{oname}/system-and-flavor{sid}", ok_sys, dict(got=_sys(vr)))
                    for i in (0, n_el - 1):
                        idx = tuple(int(j) for j in np.unravel_index(i, shape))
                        o = vr[idx if len(idx) > 1 else idx[0]]
                        F.check("C03", f"symbolic-numpy/reordered-fields/{oname}/integer-index/{i}{sid}",
                                type(o) is type(objs[i]) and O.sysof(o) == O.sysof(objs[i]) and all(a is b or O.same(a, b) for a, b in zip(O.coords(o), O.coords(objs[i]))),
                                dict(got=[repr(c)[:40] for c in O.coords(o)], expected=[repr(c)[:40] for c in O.coords(objs[i])]))
                    for n in names_:
                        F.check("C03", f"symbolic-numpy/reordered-fields/{oname}/column/{n}{sid}", all(O.same(a, b) for a, b in zip(flat(getattr(vr, n)), [getattr(o_, n) for o_ in objs])))
                    # explicit out= into a target whose fields are in this order: every named column receives the result's coordinate of that name
                    kk = T("k")
                    for uname, call, ref in (("numpy.multiply(v,k,out=)", lambda tgt: np.multiply(v, kk, out=tgt), lambda o_: o_.scale(kk)),
                                             ("numpy.negative(v,out=)", lambda tgt: np.negative(v, out=tgt), lambda o_: o_.scale(-1))) + \
                            ((("numpy.add(v,v,out=)", lambda tgt: np.add(v, v, out=tgt), lambda o_: o_.add(o_)),) if all(x in ("xy", "z", "t") for x in system) else ()):
                        try:
                            raw2 = np.empty(shape, dtype=[(keyf(n), object) for n in order])
                            for n in names_:
                                raw2[keyf(n)] = col(f"{n}9_", shape)
                            tgt = vector.array(raw2)
                            call(tgt)
                            exp_objs = [ref(o_) for o_ in objs]
                            if O.sysof(exp_objs[0]) != tuple(system):
                                continue
                            for n in names_:
                                F.check("C03", f"symbolic-numpy/reordered-fields/{oname}/{uname}/{n}{sid}", all(O.same(a, b) for a, b in zip(flat(tgt[keyf(n)]), [getattr(e_, n) for e_ in exp_objs])),
                                        dict(got=repr(flat(tgt[keyf(n)])[0])[:80], expected=repr(getattr(exp_objs[0], n))[:80]))
                        except TypeError as e:
                            if "symbolic value inspected" in str(e):
                                skipped += 1
                            else:
                                F.check("C03", f"symbolic-numpy/reordered-fields/{oname}/{uname}/defined{sid}", False, str(e)[:140])
                        except Exception as e:
                            F.check("C03", f"symbolic-numpy/reordered-fields/{oname}/{uname}/defined{sid}", False, f"{type(e).__name__}: {str(e)[:140]}")
                except Exception as e:
                    F.check("C03", f"symbolic-numpy/reordered-fields/{oname}/defined{sid}", False, f"{type(e).__name__}: {str(e)[:140]}")
        # reductions (C17, for every value): Cartesian components of numpy.sum / .sum() are the sums of the elements' Cartesian components
        # as the object backend computes them, reduced in NumPy's order; axis / keepdims honoured, flavor kept, result Cartesian
        cart = ("x", "y", "z", "t")[:d]
        for axis in ([None] + list(range(len(shape))) + [-1]) if "reduce" in parts else ():
            for keepdims in (False, True):
                for spelled, f in (("numpy.sum", lambda: np.sum(v, axis=axis, keepdims=keepdims)), (".sum()", lambda: v.sum(axis=axis, keepdims=keepdims))):
                    tag = f"{spelled}(axis={axis},keepdims={keepdims}){sid}"
                    try:
                        res = f()
                    except Exception as e:
                        if isinstance(e, TypeError) and "has no length" in str(e) and (axis is None or len(shape) == 1) and not keepdims:
                            skipped += 1      # a full reduction yields a bare token where NumPy yields a 0-d scalar with .shape: not evaluable on tokens
                            continue
                        F.check("C17", f"symbolic-numpy/defined/{tag}", False, f"{type(e).__name__}: {str(e)[:140]}")
                        continue
                    ok = isinstance(res, vector.backends.numpy.VectorNumpy) and isinstance(res, vector.Momentum) == mom
                    F.check("C17", f"symbolic-numpy/sum-class-and-flavor/{tag}", ok, type(res).__name__)
                    if not ok:
                        continue
                    for c in cart:
                        e_arr = np.empty(n_el, dtype=object)
                        for i, o in enumerate(objs):
                            e_arr[i] = getattr(o, c)
                        exp = np.sum(e_arr.reshape(shape), axis=axis, keepdims=keepdims)
                        try:
                            got = getattr(res, c)
                            same_shape = np.shape(got) == np.shape(exp)
                            F.check("C17", f"symbolic-numpy/sum-component/{c}/{tag}", same_shape and all(O.same(a, b) for a, b in zip(flat(got), flat(exp))),
                                    dict(got=repr(flat(got)[-1])[:140], expected=repr(flat(exp)[-1])[:140], shapes=(np.shape(got), np.shape(exp))))
                        except Exception as e:
                            F.check("C17", f"symbolic-numpy/sum-component/{c}/{tag}", False, f"{type(e).__name__}: {str(e)[:140]}")
        # scalar argument given as an array broadcasts element by element
        if "unary" not in parts:
            continue
        try:
            ks = col("kk", shape)
            res = v.scale(ks)
            exp = [o.scale(kk) for o, kk in zip(objs, flat(ks))]
            compare("scale(array)" + sid, res, exp, shape)
        except TypeError as e:
            if "symbolic value inspected" in str(e):
                skipped += 1
            else:
                F.check("C03", f"symbolic-numpy/defined/scale(array){sid}", False, str(e)[:140])
        # binary lattice: second operand in every system of compatible dimension, as array and as a single object
        for s2 in (O.systems() if "binary" in parts else ()):
            d2 = len(s2) + 1
            for mom2 in (False, True):
                if (hash((system, s2, mom, mom2)) % 2) and shape != shapes[0]:
                    continue
                w = make_array(s2, mom2, "2", shape)
                wobjs = [element_obj(s2, mom2, "2", i) for i in range(n_el)]
                single = element_obj(s2, mom2, "3", 0)
                pid = f"{sid}x[{','.join(s2)}|{'mom' if mom2 else 'gen'}]"
                for name, op in _binary_ops(d, d2):
                    if OP_FILTER is not None and not OP_FILTER(name):
                        continue
                    for kind, other, others in (("array", w, wobjs), ("object", single, [single] * n_el)):
                        tag = f"{name}/{kind}{pid}"
                        try:
                            with np.errstate(all="ignore"):
                                exp = [op(a, b) for a, b in zip(objs, others)]
                        except Exception:
                            continue
                        try:
                            with np.errstate(all="ignore"):
                                res = op(v, other)
                        except TypeError as e:
                            if "symbolic value inspected" in str(e):
                                skipped += 1
                                continue
                            F.check("C03", f"symbolic-numpy/defined/{tag}", False, f"TypeError: {str(e)[:140]}")
                            continue
                        except Exception as e:
                            F.check("C03", f"symbolic-numpy/defined/{tag}", False, f"{type(e).__name__}: {str(e)[:140]}")
                            continue
                        compare(tag, res, exp, shape)
                        if kind == "object" and name != "rotate_axis":
                            # object first, array second: the result is still the array backend
                            # (rotate_axis: an array axis cannot be broadcast into an object result - by design)
                            try:
                                with np.errstate(all="ignore"):
                                    exp2 = [op(b, a) for a, b in zip(objs, others)]
                                    res2 = op(other, v)
                                compare(f"{name}/object-first{pid}", res2, exp2, shape)
                            except TypeError as e:
                                if "symbolic value inspected" in str(e):
                                    skipped += 1
                            except Exception:
                                pass
    return F.n, F.bad, skipped


def _binary_ops(d, d2):
    ops = [("deltaphi", lambda a, b: a.deltaphi(b))]
    if d == d2:
        ops += [("add", lambda a, b: a.add(b)), ("subtract", lambda a, b: a.subtract(b)), ("a+b", lambda a, b: a + b), ("a-b", lambda a, b: a - b), ("dot", lambda a, b: a.dot(b)),
                ("a@b", lambda a, b: a @ b), ("isclose", lambda a, b: a.isclose(b, rtol=T("rt"), atol=T("at")))]
    if d >= 3 and d2 >= 3:
        ops += [("deltaeta", lambda a, b: a.deltaeta(b)), ("deltaR2", lambda a, b: a.deltaR2(b)), ("deltaangle", lambda a, b: a.deltaangle(b))]
    if d == 3 and d2 == 3:
        ops += [("cross", lambda a, b: a.cross(b))]
    if d >= 3 and d2 == 3:
        ops += [("rotate_axis", lambda a, b: a.rotate_axis(b, T("ang")))]
    if d == 4 and d2 == 4:
        ops += [("boost_p4", lambda a, b: a.boost_p4(b)), ("boostCM_of_p4", lambda a, b: a.boostCM_of_p4(b)), ("deltaRapidityPhi2", lambda a, b: a.deltaRapidityPhi2(b))]
    if d == 4 and d2 == 3:
        ops += [("boost_beta3", lambda a, b: a.boost_beta3(b)), ("boost(3D)", lambda a, b: a.boost(b))]
    return ops


def _sys(v):
    from .arrays import sysof
    return sysof(v)
