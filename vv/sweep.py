"""development sweep: python -m vv.sweep <filter> [prop]"""
import sys, time, json, multiprocessing as mp
from collections import Counter
import vv
from vv import ops, enginea

def main():
    filt = sys.argv[1] if len(sys.argv) > 1 else ""
    prop = sys.argv[2] if len(sys.argv) > 2 else "C01"
    jobs = [(pk, n, sig, prop) for pk, n, m in ops.all_modules() for sig in m.dispatch_map if filt in f"{pk}.{n}["]
    t0 = time.time()
    with mp.Pool(16) as pool:
        res = pool.map(enginea.run_variant_job, jobs, chunksize=1)
    print("wall", round(time.time() - t0, 1), Counter(r["status"] for r in res))
    bymod = {}
    for r in res:
        bymod.setdefault(f"{r['pk']}.{r['mod']}", Counter())[r["status"]] += 1
    for m, c in sorted(bymod.items()):
        print(f"{m:34s} {dict(c)}")
    bad = [r for r in res if r["status"] not in ("proved", "reference")]
    for r in bad[:int(sys.argv[3]) if len(sys.argv) > 3 else 12]:
        print(r["id"], r["status"], r["t"], r.get("err", ""))
        if "tb" in r: print(r["tb"][-600:])
        for o in r["obligations"]:
            if o["status"] != "proved":
                print("    ", o["id"].split("/", 2)[-1], o["status"], o["t"], o.get("note", ""), json.dumps(o.get("counterexample"))[:300] if o.get("counterexample") else "")
    mism = [r for r in res if r.get("engine_mismatch")]
    print("engine mismatches:", len(mism))
    for r in mism[:5]: print("   ", r["id"], r["engine_mismatch"][:1])
    slow = sorted(res, key=lambda r: -r["t"])[:5]
    print("slowest:", [(r["id"], r["t"]) for r in slow])
    json.dump(res, open("/var/tmp/vv_sweep.json", "w"))

if __name__ == "__main__":
    main()
