"""Contract-based deductive verification machinery for scikit-hep/vector (see /verif/DESIGN.md)."""
import os, sys
REPO = os.environ.get("VERIF_REPO", "/repo")
_src = os.path.join(REPO, "src")
if _src not in sys.path:
    sys.path.insert(0, _src)
