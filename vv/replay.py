"""Re-execute a replay file against the real code of the current tree:  ./check <id> --replay replay/<file>.json
Exit 1 (and a VIOLATION line) if the recorded input still violates the obligation, 0 if it no longer does."""
from __future__ import annotations

import importlib
import json
import os

from . import common as C


def main(prop, path):
    if not os.path.isabs(path):
        path = os.path.join(C.ROOT, path)
    rp = json.load(open(path))
    kind = rp.get("kind")
    print(f"replaying {rp.get('obligation')} recorded at {rp.get('repo_head')} on current tree {C.repo_head()}")
    if kind == "engineA-counterexample":
        return replay_engine_a(prop, rp, path)
    handler = rp.get("replay_handler")
    if handler:
        mod, fn = handler.rsplit(":", 1)
        return getattr(importlib.import_module(mod), fn)(prop, rp, path)
    print("replay file carries no executable input (no-failing-input-found); solver output follows")
    print(json.dumps(rp.get("solver_output") or rp, indent=1)[:4000])
    return 1


def replay_engine_a(prop, rp, path):
    import mpmath as mp
    import numpy
    from . import numlib as NL, ops as OPS
    from .views import BYNAME, groups, num_view, cart_of
    cx = rp.get("counterexample")
    if cx and "lemma" in cx and cx.get("inputs") is not None:
        return replay_lemma(prop, rp, cx, path)
    if not cx or "stored" not in cx:
        print("no concrete input recorded (no-failing-input-found)")
        print(json.dumps(rp, indent=1)[:3000])
        return 1
    job = rp["job"]
    mod = dict(((p, n), m) for p, n, m in OPS.all_modules())[(job["pk"], job["mod"])]
    sig = tuple(BYNAME.get(s, s) for s in job["sig"].split(","))
    fn, *returns = mod.dispatch_map[sig]
    cfn, *creturns = mod.dispatch_map[cart_of(sig)]
    vs = groups(sig)
    spec = None
    if "spec function" in str(cx.get("expected_from", "")):
        from . import specs
        spec = specs.SPECS.get((job["pk"], job["mod"]) + tuple(c for c in sig if isinstance(c, str)))
        snames = OPS.scalar_params(job["mod"], cfn, sum(2 if i == 0 else 1 for v in vs for i, _ in enumerate(v)))

    def conv(x, f):
        return x if isinstance(x, bool) else f(x)
    bad = False
    for label, lib, f in (("mpmath-60", NL.MPLIB, mp.mpf), ("numpy-float64", numpy, float)):
        sargs = [conv(x, f) for x in cx["scalars"]]
        vec = [[f(c) for c in v] for v in cx["stored"]]
        flat = [c for v in vec for c in v]
        nviews = [num_view(v, [mp.mpf(c) for c in vv]) for v, vv in zip(vs, vec)]
        with numpy.errstate(all="ignore"):
            got = fn(lib, *sargs, *flat)
            if spec is not None:
                exp = spec(NL.MPLIB, dict(zip(snames, [conv(x, mp.mpf) for x in cx["scalars"]])), nviews)
            else:
                exp = cfn(lib, *sargs, *[f(c) for v in nviews for c in v])
        if returns in ([float], [bool]):
            g, e = got, exp
        else:
            oc = [r for r in returns if r is not None]
            rc = [r for r in creturns if r is not None]
            g = [str(x) for x in num_view(oc, [mp.mpf(float(c)) if not isinstance(c, mp.mpf) else c for c in got])]
            e = [str(x) for x in (exp if spec is not None else num_view(rc, [mp.mpf(float(c)) if not isinstance(c, mp.mpf) else c for c in exp]))]
        tol = 1e-30 if label.startswith("mp") else 1e-6

        def differ(a, b):
            if isinstance(a, (list, tuple)):
                return any(differ(x, y) for x, y in zip(a, b))
            if isinstance(a, (bool, numpy.bool_)) or isinstance(b, (bool, numpy.bool_)):
                return bool(a) != bool(b)
            a, b = mp.mpf(str(a)), mp.mpf(str(b))
            return abs(a - b) > tol * max(1, abs(a), abs(b))
        d = differ(g, e)
        bad = bad or d
        print(f"[{label}] {fn.__module__}:{fn.__name__}{tuple(cx['scalars'])}{cx['stored']} -> {g}\n    reference {cfn.__name__} on the Cartesian view -> {e}   {'DIFFERENT' if d else 'same'}")
    if bad:
        print(f"VIOLATION property={prop} replay={os.path.relpath(path, C.ROOT)}")
        return 1
    print("the recorded input no longer violates the obligation on this tree")
    return 0


def replay_lemma(prop, rp, cx, path):
    """re-evaluate a lemma (a contract over several real functions) at the recorded inputs, on the real functions at 60 digits"""
    import mpmath as mp
    from . import lemmas as LM, modular, numlib as NL
    mod = importlib.import_module(f"vv.props.{prop.lower()}")
    jobs = [j for j in getattr(mod, "LEMMAS", []) if j.lid == cx["lemma"]]
    if not jobs:
        print(f"lemma {cx['lemma']} is no longer defined; solver output follows (no-failing-input-found)")
        print(json.dumps(rp, indent=1)[:3000])
        return 1

    def conv(v):
        if isinstance(v, (list, tuple)):
            return [conv(x) for x in v]
        if isinstance(v, bool):
            return v
        if isinstance(v, str) and v in ("True", "False"):
            return v == "True"
        return mp.mpf(v)
    vals = conv(cx["inputs"])
    if cx.get("structured_point") and cx.get("base_inputs") is not None and jobs[0].structured is not None:
        modular.ensure_installed()
        for lab, v2 in jobs[0].structured(conv(cx["base_inputs"])):
            if lab == cx["structured_point"]:
                vals = v2
    L = LM.LNum(vals, cx.get("case") or {})
    print(f"lemma {cx['lemma']} case {cx.get('case')} at inputs {cx['inputs']}" + (f" ({cx['structured_point']})" if cx.get("structured_point") else ""))
    try:
        jobs[0].func(L)
    except LM.Fail as f:
        print(f"claim `{f.name}` fails on the real functions: got {f.got}, expected {f.exp}")
        print(f"VIOLATION property={prop} replay={os.path.relpath(path, C.ROOT)}")
        return 1
    except (LM.Reject, NL.OutsideDomain, ZeroDivisionError, ValueError) as e:
        print(f"the recorded input is outside the lemma's domain on this tree ({type(e).__name__}: {e})")
        return 0
    print(f"all {L.checked} claims of the lemma hold at the recorded input on this tree")
    return 0
