"""Numeric `lib` adapters used to replay counterexamples and to cross-check the engine against CPython:
the real compute functions are executed with `MPLIB` (mpmath, 60 digits) or with numpy (float64)."""
from __future__ import annotations

import mpmath as mp

mp.mp.dps = 60


class OutsideDomain(Exception):
    pass


def _f(x):
    if isinstance(x, bool):
        return mp.mpf(int(x))
    return mp.mpf(x) if not isinstance(x, mp.mpf) else x


class MpLib:
    pi = mp.pi
    inf = mp.inf
    nan = mp.nan

    def sqrt(self, x):
        x = _f(x)
        return mp.nan if (mp.isnan(x) or x < 0) else mp.sqrt(x)

    def cbrt(self, x):
        x = _f(x)
        return mp.cbrt(x) if x >= 0 else -mp.cbrt(-x)

    def sin(self, x): return mp.sin(_f(x))
    def cos(self, x): return mp.cos(_f(x))
    def tan(self, x): return mp.tan(_f(x))

    def arctan2(self, y, x): return mp.atan2(_f(y), _f(x))

    def arccos(self, x):
        x = _f(x)
        return mp.nan if (mp.isnan(x) or abs(x) > 1) else mp.acos(x)

    def arcsin(self, x):
        x = _f(x)
        return mp.nan if (mp.isnan(x) or abs(x) > 1) else mp.asin(x)

    def arctan(self, x): return mp.atan(_f(x))
    def exp(self, x): return mp.exp(_f(x))

    def log(self, x):
        x = _f(x)
        if mp.isnan(x) or x < 0:
            return mp.nan
        if x == 0:
            return -mp.inf
        return mp.log(x)

    def sinh(self, x): return mp.sinh(_f(x))
    def cosh(self, x): return mp.cosh(_f(x))
    def tanh(self, x): return mp.tanh(_f(x))
    def arcsinh(self, x): return mp.asinh(_f(x))
    def arctanh(self, x): return mp.atanh(_f(x))
    def absolute(self, x): return abs(_f(x))
    abs = absolute

    def sign(self, x):
        x = _f(x)
        return mp.mpf((x > 0) - (x < 0))

    def copysign(self, a, b):
        a, b = abs(_f(a)), _f(b)
        return a if (b > 0 or (b == 0 and mp.sign(b) >= 0)) else -a

    def maximum(self, a, b):
        a, b = _f(a), _f(b)
        if mp.isnan(a) or mp.isnan(b):
            return mp.nan
        return a if a >= b else b

    def minimum(self, a, b):
        a, b = _f(a), _f(b)
        if mp.isnan(a) or mp.isnan(b):
            return mp.nan
        return a if a <= b else b

    def nan_to_num(self, v, nan=0.0, posinf=None, neginf=None, copy=True):
        v = _f(v)
        if mp.isnan(v):
            return _f(nan)
        if v == mp.inf:
            return _f(posinf) if posinf is not None else mp.mpf("1.7976931348623157e308")
        if v == -mp.inf:
            return _f(neginf) if neginf is not None else mp.mpf("-1.7976931348623157e308")
        return v

    def isclose(self, a, b, rtol=1e-05, atol=1e-08, equal_nan=False):
        a, b = _f(a), _f(b)
        if mp.isnan(a) or mp.isnan(b):
            return bool(equal_nan and mp.isnan(a) and mp.isnan(b))
        if mp.isinf(a) or mp.isinf(b):
            return a == b
        return abs(a - b) <= _f(atol) + _f(rtol) * abs(b)


MPLIB = MpLib()


def run_real(fn, args, lib=None):
    """execute a real compute function numerically; a ZeroDivisionError or a NaN result means the point is outside the
    domain where the mathematical reading applies"""
    try:
        r = fn(lib or MPLIB, *args)
    except ZeroDivisionError as e:
        raise OutsideDomain(str(e))
    return r


def finite(v):
    if isinstance(v, (tuple, list)):
        return all(finite(x) for x in v)
    if isinstance(v, (bool,)):
        return True
    try:
        return mp.isfinite(_f(v))
    except Exception:
        return True
