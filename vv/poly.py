"""Sparse multivariate polynomials over exact rationals, with monomial rewrite rules.

Used by Engine A (symreal) as the normal form of numerators and denominators.  z3 terms are only
produced at query time (`to_z3`).  Variables are small integers handed out by a `VarTable`.
"""
from __future__ import annotations

from fractions import Fraction as Fr

ZERO_MONO = ()


def _mono_mul(a, b):
    if not a:
        return b
    if not b:
        return a
    out = []
    i = j = 0
    la, lb = len(a), len(b)
    while i < la and j < lb:
        va, ea = a[i]
        vb, eb = b[j]
        if va == vb:
            out.append((va, ea + eb)); i += 1; j += 1
        elif va < vb:
            out.append(a[i]); i += 1
        else:
            out.append(b[j]); j += 1
    if i < la:
        out.extend(a[i:])
    if j < lb:
        out.extend(b[j:])
    return tuple(out)


def _mono_div(a, b):
    """a / b if b divides a else None"""
    if not b:
        return a
    d = dict(a)
    for v, e in b:
        have = d.get(v, 0)
        if have < e:
            return None
        if have == e:
            del d[v]
        else:
            d[v] = have - e
    return tuple(sorted(d.items()))


def _mono_gcd(a, b):
    if not a or not b:
        return ()
    db = dict(b)
    return tuple((v, min(e, db[v])) for v, e in a if v in db)


def _mono_deg(m):
    return sum(e for _, e in m)


class Poly:
    __slots__ = ("t", "_h")

    def __init__(self, terms=None):
        self.t = terms if terms is not None else {}
        self._h = None

    # ---- constructors
    @staticmethod
    def const(c):
        c = Fr(c)
        return Poly({ZERO_MONO: c}) if c != 0 else Poly({})

    @staticmethod
    def var(v, e=1):
        return Poly({((v, e),): Fr(1)})

    # ---- predicates
    def is_zero(self):
        return not self.t

    def is_const(self):
        return not self.t or (len(self.t) == 1 and ZERO_MONO in self.t)

    def const_value(self):
        if not self.t:
            return Fr(0)
        if len(self.t) == 1 and ZERO_MONO in self.t:
            return self.t[ZERO_MONO]
        return None

    def is_one(self):
        return len(self.t) == 1 and self.t.get(ZERO_MONO) == 1

    def vars(self):
        s = set()
        for m in self.t:
            for v, _ in m:
                s.add(v)
        return s

    def nterms(self):
        return len(self.t)

    # ---- arithmetic
    def __add__(self, o):
        if not isinstance(o, Poly):
            o = Poly.const(o)
        if len(self.t) < len(o.t):
            self, o = o, self
        r = dict(self.t)
        for m, c in o.t.items():
            n = r.get(m)
            if n is None:
                r[m] = c
            else:
                n = n + c
                if n == 0:
                    del r[m]
                else:
                    r[m] = n
        return Poly(r)

    __radd__ = __add__

    def __neg__(self):
        return Poly({m: -c for m, c in self.t.items()})

    def __sub__(self, o):
        if not isinstance(o, Poly):
            o = Poly.const(o)
        return self + (-o)

    def __rsub__(self, o):
        return Poly.const(o) + (-self)

    def scale(self, c):
        c = Fr(c)
        if c == 0:
            return Poly({})
        if c == 1:
            return self
        return Poly({m: k * c for m, k in self.t.items()})

    def __mul__(self, o):
        if not isinstance(o, Poly):
            return self.scale(o)
        if not self.t or not o.t:
            return Poly({})
        if len(o.t) == 1:
            (mo, co), = o.t.items()
            if not mo:
                return self.scale(co)
            return Poly({_mono_mul(m, mo): c * co for m, c in self.t.items()})
        if len(self.t) == 1:
            return o * self
        r = {}
        for ma, ca in self.t.items():
            for mb, cb in o.t.items():
                m = _mono_mul(ma, mb)
                c = ca * cb
                n = r.get(m)
                if n is None:
                    r[m] = c
                else:
                    n = n + c
                    if n == 0:
                        del r[m]
                    else:
                        r[m] = n
        return Poly(r)

    __rmul__ = __mul__

    def __pow__(self, k):
        assert isinstance(k, int) and k >= 0
        r = Poly.const(1)
        b = self
        while k:
            if k & 1:
                r = r * b
            k >>= 1
            if k:
                b = b * b
        return r

    # ---- structure
    def key(self):
        if self._h is None:
            self._h = tuple(sorted(self.t.items()))
        return self._h

    def __eq__(self, o):
        return isinstance(o, Poly) and self.t == o.t

    def __hash__(self):
        return hash(self.key())

    def lead(self):
        """leading term under graded-lex order on (degree, monomial)"""
        m = max(self.t, key=lambda m: (_mono_deg(m), m))
        return m, self.t[m]

    def content_mono(self):
        it = iter(self.t)
        try:
            g = next(it)
        except StopIteration:
            return ()
        for m in it:
            g = _mono_gcd(g, m)
            if not g:
                return ()
        return g

    def div_mono(self, g, c=1):
        c = Fr(c)
        if not g and c == 1:
            return self
        return Poly({_mono_div(m, g): k / c for m, k in self.t.items()})

    def exact_div(self, d, limit=4000):
        """quotient q with self == q*d, or None"""
        if d.is_zero():
            return None
        if d.is_const():
            return self.scale(1 / d.const_value())
        if len(d.t) == 1:
            (md, cd), = d.t.items()
            out = {}
            for m, c in self.t.items():
                q = _mono_div(m, md)
                if q is None:
                    return None
                out[q] = c / cd
            return Poly(out)
        if len(self.t) < len(d.t) and not self.is_zero():
            return None
        lm, lc = d.lead()
        rem = self
        q = {}
        steps = 0
        while rem.t:
            steps += 1
            if steps > limit:
                return None
            rm, rc = rem.lead()
            qm = _mono_div(rm, lm)
            if qm is None:
                return None
            qc = rc / lc
            q[qm] = q.get(qm, 0) + qc
            rem = rem - d * Poly({qm: qc})
        return Poly({m: c for m, c in q.items() if c != 0})

    def subs_rules(self, rules, index, maxiter=200):
        """rewrite with monomial rules: list of (lhs_monomial_tuple, rhs Poly); index: var -> [rule ids]"""
        if not rules:
            return self
        cur = self
        for _ in range(maxiter):
            changed = False
            acc = None
            keep = {}
            for m, c in cur.t.items():
                hit = None
                for v, e in m:
                    for ri in index.get(v, ()):
                        lhs = rules[ri][0]
                        q = _mono_div(m, lhs)
                        if q is not None:
                            hit = (q, rules[ri][1]); break
                    if hit:
                        break
                if hit is None:
                    n = keep.get(m)
                    if n is None:
                        keep[m] = c
                    else:
                        n += c
                        if n == 0:
                            del keep[m]
                        else:
                            keep[m] = n
                else:
                    changed = True
                    piece = hit[1] * Poly({hit[0]: c})
                    acc = piece if acc is None else acc + piece
            if not changed:
                return cur
            cur = Poly(keep)
            if acc is not None:
                cur = cur + acc
        raise RuntimeError("rewrite rules did not terminate")

    # ---- evaluation / export
    def eval(self, env):
        tot = 0
        for m, c in self.t.items():
            p = c
            for v, e in m:
                p = p * env[v] ** e
            tot = tot + p
        return tot

    def to_z3(self, zvars):
        import z3
        if not self.t:
            return z3.RealVal(0)
        terms = []
        for m, c in sorted(self.t.items()):
            fs = []
            if c != 1 or not m:
                fs.append(z3.RealVal(str(c)) if c.denominator != 1 else z3.RealVal(c.numerator))
            for v, e in m:
                zv = zvars(v)
                for _ in range(e):
                    fs.append(zv)
            t = fs[0]
            for f in fs[1:]:
                t = t * f
            terms.append(t)
        return z3.Sum(terms) if len(terms) > 1 else terms[0]

    def to_str(self, names):
        if not self.t:
            return "0"
        out = []
        for m, c in sorted(self.t.items()):
            ms = "*".join(f"{names(v)}" + (f"^{e}" if e > 1 else "") for v, e in m)
            if not ms:
                out.append(str(c))
            elif c == 1:
                out.append(ms)
            elif c == -1:
                out.append("-" + ms)
            else:
                out.append(f"{c}*{ms}")
        return " + ".join(out).replace("+ -", "- ")
