"""Machine check of the engine's analytic axioms: /verif/lean/Axioms.lean (Lean 4 + Mathlib) proves, over the reals, every
trigonometric / logarithmic / piecewise fact that vv.symreal uses about the functions reached through `lib` (DESIGN 13.13).
Run in the thorough tier; the quick tier records the file's digest and theorem census only."""
from __future__ import annotations

import hashlib
import os
import re
import subprocess
import time

ROOT = os.path.dirname(os.path.dirname(os.path.abspath(__file__)))
LEAN_FILE = os.path.join(ROOT, "lean", "Axioms.lean")
MATHLIB = "/opt/veriftools/mathlib4"
STANDARD = {"propext", "Classical.choice", "Quot.sound"}

# engine axiom -> theorems of lean/Axioms.lean that prove it
MAP = {
    "Pythagorean identity, angle addition / negation formulas": ["pythagoras", "cos_add", "sin_add", "cos_neg", "sin_neg"],
    "half-angle substitution (cos t = c^2 - s^2, sin t = 2 s c; positivity on (0, pi))": ["half_angle", "half_angle_pos", "sin_pos_of_lt_pi"],
    "arctan2 characterised by (r cos a, r sin a) = (x, y), r = sqrt(x^2+y^2) > 0, window (-pi, pi]": ["arctan2_spec", "arctan2_spec'"],
    "arccos / arcsin / arctan characterised by (cos, sin, window)": ["arccos_spec", "arcsin_spec", "arctan_spec"],
    "injectivity of an angle within a window of length <= 2 pi (closed window: the two ends are the only exception)": ["angle_diff", "angle_inj", "angle_inj_window", "angle_inj_window'", "angle_closed_window"],
    "exp/log inverse, log of products, log injective, hyperbolic functions and arcsinh / arctanh via exp / log": ["exp_log", "log_mul", "log_inj_pos", "sinh_via_exp", "cosh_via_exp", "tanh_via_exp", "arsinh_via_log", "artanh_via_log"],
    "theta in (0, pi) parametrised by k = cot(theta): cos = k/w, sin = 1/w, tan(theta/2) = 1/(w+k); eta = -log tan(theta/2) = arcsinh(k)": ["theta_param", "eta_of_theta"],
    "x % m in [0, m) and congruent to x for m > 0; (phi + pi) % (2 pi) - pi in [-pi, pi) with the same cos and sin": ["float_mod", "rectify"],
    "sqrt / cbrt characterised by r >= 0, r^2 = E / r^3 = a": ["sqrt_char", "cbrt_char"],
    "a / tan(A) = a cos(A) / sin(A) where both are defined": ["cot_reading"],
    "absolute / maximum / minimum as case distinctions": ["abs_cases", "max_cases", "min_cases"],
    "Cauchy-Schwarz in three dimensions (lemma instantiated by the clamp obligations)": ["cauchy_schwarz3"],
}


def census():
    src = open(LEAN_FILE).read()
    names = re.findall(r"^theorem\s+(\S+)", src, flags=re.M)
    bad = [m for m in re.findall(r"\bsorry\b|^axiom\b|native_decide", src, flags=re.M)]
    return dict(file="lean/Axioms.lean", sha256=hashlib.sha256(src.encode()).hexdigest()[:16], theorems=len(names), names=names, forbidden_tokens=len(bad))


def run(timeout=900):
    """compile the file; returns a dict with ok / theorems checked / wall time / any problem"""
    c = census()
    want = sorted({t for ts in MAP.values() for t in ts})
    missing = [t for t in want if t not in c["names"]]
    t0 = time.time()
    try:
        r = subprocess.run(["lake", "env", "lean", LEAN_FILE], cwd=MATHLIB, capture_output=True, text=True, timeout=timeout)
        out = r.stdout + r.stderr
        rc = r.returncode
    except Exception as e:          # lean missing / timeout: the axioms stay assumptions, nothing else changes
        return dict(c, checked=False, ok=False, problem=f"{type(e).__name__}: {str(e)[:200]}", wall_s=round(time.time() - t0, 1))
    deps = dict(re.findall(r"'VV\.(.+?)' depends on axioms: \[([^\]]*)\]", out))
    nonstd = {k: v for k, v in deps.items() if not set(x.strip() for x in v.split(",")) <= STANDARD}
    unproved = [t for t in want if t not in deps]
    ok = rc == 0 and "error" not in out.lower() and "sorry" not in out.lower() and not nonstd and not unproved and not missing and c["forbidden_tokens"] == 0
    return dict(c, checked=True, ok=ok, lean_exit=rc, theorems_checked=len(deps), nonstandard_axioms=nonstd, not_reported=unproved + missing,
                wall_s=round(time.time() - t0, 1), problem=None if ok else out[-600:], checker="Lean 4.33.0 + Mathlib v4.33.0 (lake env lean)",
                proves={k: v for k, v in MAP.items()})
