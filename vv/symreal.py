"""Engine A value domain: symbolic reals as formal fractions of polynomials, angles, logarithms, Booleans.

The real compute functions of /repo are *called* with these values and with `LIB` as their `lib`.
Nothing here looks at the repository's source text.
"""
from __future__ import annotations

import math
from fractions import Fraction as Fr

from .poly import Poly, _mono_div


class _Budget:
    """wall-clock budget for one symbolic execution (normal forms of a mutated kernel can explode): exceeding it is a subset escape - the obligation is
    undecided (or refuted by the numeric refuter), never a verdict"""

    def __init__(self, seconds):
        self.seconds = seconds

    def __enter__(self):
        import signal

        def onalarm(sig, frm):
            raise OutOfSubset(f"symbolic execution exceeded its time budget of {self.seconds} s")
        try:
            self.old = signal.signal(signal.SIGALRM, onalarm)
            signal.setitimer(signal.ITIMER_REAL, self.seconds)
            self.armed = True
        except ValueError:          # not in the main thread
            self.armed = False
        return self

    def __exit__(self, *a):
        import signal
        if self.armed:
            signal.setitimer(signal.ITIMER_REAL, 0)
            signal.signal(signal.SIGALRM, self.old)
        return False


def time_budget(seconds=None):
    import os
    return _Budget(seconds or float(os.environ.get("VERIF_SYMEXEC_BUDGET_S", "90")))


class OutOfSubset(Exception):
    """the executed function left the verifiable subset (reported as undecided, never as a violation)"""


# ------------------------------------------------------------------------------------------ formulas
# ('rel', op, Poly)  meaning  Poly op 0 ;  ('and', tuple) ; ('or', tuple) ; ('not', f) ; ('const', bool)
TRUE = ("const", True)
FALSE = ("const", False)


def f_rel(p, op):
    c = p.const_value()
    if c is not None:
        return ("const", {"==": c == 0, "!=": c != 0, ">": c > 0, ">=": c >= 0, "<": c < 0, "<=": c <= 0}[op])
    return ("rel", op, p)


def f_and(*fs):
    out = []
    for f in fs:
        if f == TRUE:
            continue
        if f == FALSE:
            return FALSE
        if f[0] == "and":
            out.extend(f[1])
        else:
            out.append(f)
    if not out:
        return TRUE
    return out[0] if len(out) == 1 else ("and", tuple(out))


def f_or(*fs):
    out = []
    for f in fs:
        if f == FALSE:
            continue
        if f == TRUE:
            return TRUE
        if f[0] == "or":
            out.extend(f[1])
        else:
            out.append(f)
    if not out:
        return FALSE
    return out[0] if len(out) == 1 else ("or", tuple(out))


_NEG = {"==": "!=", "!=": "==", ">": "<=", ">=": "<", "<": ">=", "<=": ">"}


def f_not(f):
    if f[0] == "const":
        return ("const", not f[1])
    if f[0] == "rel":
        return ("rel", _NEG[f[1]], f[2])
    if f[0] == "not":
        return f[1]
    if f[0] == "and":
        return f_or(*[f_not(g) for g in f[1]])
    if f[0] == "or":
        return f_and(*[f_not(g) for g in f[1]])
    raise TypeError(f)


def f_imp(a, b):
    return f_or(f_not(a), b)


def f_iff(a, b):
    if a == b:
        return TRUE
    return f_and(f_imp(a, b), f_imp(b, a))


def f_vars(f, acc=None):
    acc = set() if acc is None else acc
    if f[0] == "rel":
        acc |= f[2].vars()
    elif f[0] in ("and", "or"):
        for g in f[1]:
            f_vars(g, acc)
    elif f[0] == "not":
        f_vars(f[1], acc)
    return acc


def f_to_z3(f, zvars):
    import z3
    k = f[0]
    if k == "const":
        return z3.BoolVal(f[1])
    if k == "rel":
        e = f[2].to_z3(zvars)
        op = f[1]
        return {"==": e == 0, "!=": e != 0, ">": e > 0, ">=": e >= 0, "<": e < 0, "<=": e <= 0}[op]
    if k == "and":
        return z3.And(*[f_to_z3(g, zvars) for g in f[1]])
    if k == "or":
        return z3.Or(*[f_to_z3(g, zvars) for g in f[1]])
    if k == "not":
        return z3.Not(f_to_z3(f[1], zvars))
    raise TypeError(f)


def f_eval(f, env, tol=0):
    """numeric truth value; env: var -> number.  tol>0 relaxes equalities/inequalities (used when validating models)."""
    k = f[0]
    if k == "const":
        return f[1]
    if k == "rel":
        v = f[2].eval(env)
        scale = 1
        if tol:
            scale = max([1] + [abs(c) * _mono_mag(m, env) for m, c in f[2].t.items()])
        eps = tol * scale
        op = f[1]
        if op == "==":
            return abs(v) <= eps
        if op == "!=":
            return abs(v) > eps
        if op == ">":
            return v > -eps if tol else v > 0
        if op == ">=":
            return v >= -eps
        if op == "<":
            return v < eps if tol else v < 0
        if op == "<=":
            return v <= eps
    if k == "and":
        return all(f_eval(g, env, tol) for g in f[1])
    if k == "or":
        return any(f_eval(g, env, tol) for g in f[1])
    if k == "not":
        return not f_eval(f[1], env, tol)
    raise TypeError(f)


def _mono_mag(m, env):
    p = 1
    for v, e in m:
        p = p * abs(env[v]) ** e
    return p


def f_str(f, names):
    k = f[0]
    if k == "const":
        return str(f[1])
    if k == "rel":
        return f"({f[2].to_str(names)} {f[1]} 0)"
    if k in ("and", "or"):
        return "(" + f" {k} ".join(f_str(g, names) for g in f[1]) + ")"
    if k == "not":
        return "not " + f_str(f[1], names)
    return str(f)


# ------------------------------------------------------------------------------------------ context
class Ctx:
    def __init__(self):
        self.names = []          # var id -> name
        self.sign = {}           # var id -> '+', '0+', '-', '0-'
        self.vardef = {}         # var id -> callable(envget) -> numeric value (derived variables)
        self.inputs = []         # descriptors of input variables (for samplers / model read-back)
        self.hyps = []           # hypotheses: preconditions and defining constraints
        self.pre = []            # the subset of hyps that are contract preconditions (for vacuity / sampling)
        self.defs = []           # (description, formula): definedness obligations
        self.rules = []          # rewrite rules (lhs monomial, rhs Poly)
        self.rindex = {}
        self.memo = {}
        self.opaque = {}         # key -> dict(var, kind, args, window, obj)
        self.ranges = {}         # angle atom name -> (lo, hi) in units of pi
        self.atomval = {}        # angle atom name -> callable(envget) -> numeric angle
        self.notes = []          # proof tactics / assumptions used (for evidence)
        self.known = {}          # Poly.key() -> sign class, for polynomials whose sign is a precondition
        self.knownA = {}         # A.key() -> sign class established along the computation (fractions)
        self.cps = {}            # key of a copysign variable -> (magnitude, sign source)
        self.radicals = {}       # radical variable r -> polynomial E with r >= 0, r^2 = E
        self.stub_depth = 0

    # variables
    def new(self, name, sign=None, define=None):
        v = len(self.names)
        self.names.append(f"{name}" if name not in self.names else f"{name}!{v}")
        if sign:
            self.sign[v] = sign
        if define is not None:
            self.vardef[v] = define
        return v

    def name(self, v):
        return self.names[v]

    def fresh_atom(self, tag):
        self.natoms = getattr(self, "natoms", 0) + 1
        return f"{tag}_{self.natoms}"

    def add_rule(self, lhs, rhs):
        self.rules.append((lhs, rhs))
        for v, _ in lhs:
            self.rindex.setdefault(v, []).append(len(self.rules) - 1)

    def reduce(self, p):
        return p.subs_rules(self.rules, self.rindex) if self.rules else p

    def hyp(self, f, pre=False):
        if f == TRUE:
            return
        self.hyps.append(f)
        if pre:
            self.pre.append(f)
        if f[0] == "rel" and f[1] in (">", ">=", "<", "<="):
            sg = {">": "+", ">=": "0+", "<": "-", "<=": "0-"}[f[1]]
            self.known.setdefault(f[2].key(), sg)
            self.known.setdefault((-f[2]).key(), _sg_neg(sg))

    def need(self, desc, f):
        if f == TRUE:
            return
        self.defs.append((desc, f))

    # syntactic sign analysis
    def mono_sign(self, m, c):
        """sign class of c*m: '+', '-', '0+', '0-' or None"""
        s = 1 if c > 0 else -1
        strict = True
        for v, e in m:
            sv = self.sign.get(v)
            if sv is None:
                if e % 2 == 0:
                    strict = False
                    continue
                return None
            if sv in ("0+", "0-"):
                strict = False
            if sv in ("-", "0-") and e % 2 == 1:
                s = -s
        if s > 0:
            return "+" if strict else "0+"
        return "-" if strict else "0-"

    def poly_sign(self, p):
        s = self._poly_sign(p)
        if s is None and self.rules and p.nterms() <= 30:
            # the rule s^2 -> 1-c^2 can hide a sign: retry with c^2 -> 1-s^2 for all angle atoms at once
            rules, index = [], {}
            for lhs, rhs in self.rules:
                if len(lhs) == 1 and lhs[0][1] == 2 and rhs.nterms() == 2:
                    cvs = [m[0][0] for m in rhs.t if m]
                    if len(cvs) == 1 and rhs.t.get(()) == 1:
                        index[cvs[0]] = [len(rules)]
                        rules.append((((cvs[0], 2),), Poly.const(1) - Poly.var(lhs[0][0], 2)))
            if rules:
                q = p.subs_rules(rules, index)
                if q != p:
                    s = self._poly_sign(q)
        return s

    def _poly_sign(self, p):
        if p.is_zero():
            return "0"
        pos = neg = False
        strict = False
        for m, c in p.t.items():
            s = self.mono_sign(m, c)
            if s is None:
                return None
            if s in ("+", "0+"):
                pos = True
            else:
                neg = True
            if s in ("+", "-"):
                strict = True
            if pos and neg:
                return None
        if pos:
            return "+" if strict else "0+"
        return "-" if strict else "0-"


CTX: Ctx = None  # type: ignore


def newctx():
    global CTX
    CTX = Ctx()
    return CTX


def rat(v):
    if isinstance(v, bool):
        raise OutOfSubset("bool constant in arithmetic")
    if isinstance(v, int):
        return Fr(v)
    if isinstance(v, Fr):
        return v
    if isinstance(v, float):
        if math.isinf(v) or math.isnan(v):
            raise OutOfSubset("inf/nan constant in arithmetic")
        f = Fr(v).limit_denominator(1000)
        if abs(float(f) - v) > 2e-16 * max(1.0, abs(v)):
            raise OutOfSubset(f"float literal {v!r} is not a simple rational")
        return f
    if hasattr(v, "dtype") and getattr(v, "shape", None) == ():
        return rat(v.item())
    raise OutOfSubset(f"constant of type {type(v).__name__}")


# ------------------------------------------------------------------------------------------ poly helpers
def _poly_sqrt(p):
    """polynomial s with s*s == p, or None (leading-term method)"""
    if p.is_zero():
        return Poly({})
    if p.nterms() > 60:
        return None
    from .poly import _mono_deg
    # sqrt of leading term
    lm, lc = p.lead()
    if any(e % 2 for _, e in lm):
        return None
    if lc <= 0:
        return None
    cn, cd = math.isqrt(lc.numerator), math.isqrt(lc.denominator)
    if cn * cn != lc.numerator or cd * cd != lc.denominator:
        return None
    s = Poly({tuple((v, e // 2) for v, e in lm): Fr(cn, cd)})
    lead_s = s
    rem = p - s * s
    for _ in range(60):
        if rem.is_zero():
            return s
        rm, rc = rem.lead()
        (sm, sc), = lead_s.t.items()
        q = _mono_div(rm, sm)
        if q is None:
            return None
        term = Poly({q: rc / (2 * sc)})
        ns = s + term
        rem = p - ns * ns
        s = ns
        if s.nterms() > 40:
            return None
    return None


# ------------------------------------------------------------------------------------------ Alg
class A:
    """real-algebraic value as a formal fraction n/d of polynomials (d is never the zero polynomial)"""
    __slots__ = ("n", "d", "sg")

    def __init__(self, n, d=None, raw=False, sg=None):
        self.sg = sg
        if d is None:
            self.n = n if raw else CTX.reduce(n)
            self.d = _ONE
            return
        if raw:
            self.n, self.d = n, d
            return
        n = CTX.reduce(n)
        if d.nterms() > 1:
            d = CTX.reduce(d)         # a monomial denominator is kept as it is (r^2, s^2 stay visible as squares)
        if d.is_zero():
            raise OutOfSubset("denominator is identically zero")
        if n.is_zero():
            self.n, self.d = n, _ONE
            return
        c = d.const_value()
        if c is not None:
            self.n, self.d = n.scale(1 / c), _ONE
            return
        if n == d:
            self.n, self.d = _ONE, _ONE
            return
        # common monomial content
        gn, gd = n.content_mono(), d.content_mono()
        if gn and gd:
            from .poly import _mono_gcd
            g = _mono_gcd(gn, gd)
            if g:
                n, d = n.div_mono(g), d.div_mono(g)
        # exact division either way (small cases only)
        if d.nterms() <= 40 and n.nterms() <= 400:
            q = n.exact_div(d)
            if q is not None:
                self.n, self.d = q, _ONE
                return
        if n.nterms() <= 40 and d.nterms() <= 400 and n.nterms() > 0:
            q = d.exact_div(n)
            if q is not None and not q.is_zero():
                n, d = _ONE, q
        # make denominator's leading coefficient positive one
        _, lc = d.lead()
        if lc != 1:
            n, d = n.scale(1 / lc), d.scale(1 / lc)
        c = d.const_value()
        if c is not None:
            n, d = n.scale(1 / c), _ONE
        self.n, self.d = n, d

    @staticmethod
    def of(v):
        if isinstance(v, A):
            return v
        if isinstance(v, (int, float, Fr)) and not isinstance(v, bool):
            return A(Poly.const(rat(v)), raw=True)
        if isinstance(v, Ang):
            return v.as_alg()
        if isinstance(v, Lg):
            return v.as_alg()
        if isinstance(v, PiMul):
            return v.as_alg()
        if isinstance(v, TanV):
            return v.as_alg()
        if hasattr(v, "dtype") and getattr(v, "shape", None) == ():
            return A.of(v.item())
        raise OutOfSubset(f"A.of({type(v).__name__})")

    @staticmethod
    def var(v):
        return A(Poly.var(v), raw=True)

    def const(self):
        if self.d.is_one():
            return self.n.const_value()
        return None

    def key(self):
        return (self.n.key(), self.d.key())

    def recip(self):
        r = A(self.d, self.n)
        if r.sg is None and self.sign() in ("+", "-"):
            r.sg = self.sign()
        return r

    def den_sign(self):
        return "+" if self.d.is_one() else CTX.poly_sign(self.d)

    # arithmetic
    def __add__(self, o):
        if isinstance(o, (Ang, PiMul, Lg)):
            return o.__radd__(self)
        if isinstance(o, (B, Junk)):
            return Junk()
        o = A.of(o)
        r = self._add(o)
        if r.sg is None:
            sg = _sg_add(self.sign(), o.sign())
            if sg not in ("+", "-", "0"):
                nf = r._sign()            # normal form / precondition table may know more (strictness)
                if nf is not None and (sg is None or nf in ("+", "-", "0")):
                    sg = nf
            if sg is not None:
                r.sg = sg
                _remember_sign(r)
        return r

    def _add(self, o):
        if self.d == o.d:
            return A(self.n + o.n, self.d)
        if self.d.is_one():
            return A(self.n * o.d + o.n, o.d)
        if o.d.is_one():
            return A(self.n + o.n * self.d, self.d)
        if o.d.nterms() <= 40:
            q = self.d.exact_div(o.d)
            if q is not None:
                return A(self.n + o.n * q, self.d)
        if self.d.nterms() <= 40:
            q = o.d.exact_div(self.d)
            if q is not None:
                return A(self.n * q + o.n, o.d)
        return A(self.n * o.d + o.n * self.d, self.d * o.d)

    def __radd__(self, o):
        return A.of(o) + self

    def __neg__(self):
        return A(-self.n, self.d, raw=True, sg=None if self.sg in (None, "?") else _sg_neg(self.sg))

    def __pos__(self):
        return self

    def __sub__(self, o):
        if isinstance(o, (Ang, PiMul, Lg)):
            return (-o).__radd__(self)
        if isinstance(o, (B, Junk)):
            return Junk()
        return self + (-A.of(o))

    def __rsub__(self, o):
        return A.of(o) + (-self)

    def __mul__(self, o):
        if isinstance(o, (PiMul, Ang, Lg)):
            return o.__rmul__(self)
        if isinstance(o, (B, Junk)):
            return Junk()
        o = A.of(o)
        r = self._mul(o)
        if r.sg is None:
            if o is self or (self.n == o.n and self.d == o.d):
                ss = self.sign()
                r.sg = "+" if ss in ("+", "-") else "0+"
            else:
                sg = _sg_mul(self.sign(), o.sign())
                if sg is not None:
                    r.sg = sg
            _remember_sign(r)
        return r

    def _mul(self, o):
        n1, d1, n2, d2 = self.n, self.d, o.n, o.d
        if not d1.is_one() and not n2.is_const():
            if d1 == n2:
                return A(n1, d2)
            if d1.nterms() <= 40:
                q = n2.exact_div(d1)
                if q is not None:
                    n2, d1 = q, _ONE
        if not d2.is_one() and not n1.is_const():
            if d2 == n1:
                return A(n2, d1)
            if d2.nterms() <= 40:
                q = n1.exact_div(d2)
                if q is not None:
                    n1, d2 = q, _ONE
        return A(n1 * n2, d1 * d2)

    def __rmul__(self, o):
        return A.of(o) * self

    def __truediv__(self, o):
        if isinstance(o, TanV):
            return o.__rtruediv__(self)
        if isinstance(o, (B, Junk)):
            return Junk()
        o = A.of(o)
        o.nonzero("division")
        return self * o.recip()

    def __rtruediv__(self, o):
        self.nonzero("division")
        return A.of(o) * self.recip()

    def nonzero(self, what):
        s = CTX.poly_sign(self.n)
        if s in ("+", "-"):
            return
        if self.n.is_zero():
            CTX.need(f"{what}: divisor is identically zero", FALSE)
            raise OutOfSubset("division by an identically zero term")
        CTX.need(f"{what}: divisor != 0", f_rel(self.n, "!="))

    def __pow__(self, k):
        k = rat(k)
        if k == 2:
            return self * self
        if k == 1:
            return self
        if k == Fr(1, 2):
            return LIB.sqrt(self)
        if k == Fr(-1, 2):
            return 1 / LIB.sqrt(self)
        if k == -1:
            return 1 / self
        if k.denominator == 1 and 0 <= k <= 6:
            r = A.of(1)
            for _ in range(int(k)):
                r = r * self
            return r
        if k == Fr(1, 3):
            return LIB.cbrt(self)
        raise OutOfSubset(f"power {k}")

    def __abs__(self):
        return LIB.absolute(self)

    # comparisons (formulas); assume denominators non-zero (separate obligations)
    def _diff(self, o):
        o = A.of(o)
        d = self - o
        return d.n, d.d

    def rel(self, op, o=0):
        n, d = self._diff(o)
        if op in ("==", "!="):
            return f_rel(n, op)
        ds = "+" if d.is_one() else CTX.poly_sign(d)
        if ds == "+":
            return f_rel(n, op)
        if ds == "-":
            return f_rel(-n, op)
        return f_rel(n * d, op)

    def __eq__(self, o):
        if isinstance(o, (Ang, Lg)):
            return o.__eq__(self)
        if isinstance(o, (B, Junk)):
            raise OutOfSubset("comparison of number with Boolean")
        return B(self.rel("==", o))

    def __ne__(self, o):
        if isinstance(o, (Ang, Lg)):
            return o.__ne__(self)
        return B(self.rel("!=", o))

    def __lt__(self, o):
        return B(self.rel("<", o))

    def __gt__(self, o):
        return B(self.rel(">", o))

    def __le__(self, o):
        return B(self.rel("<=", o))

    def __ge__(self, o):
        return B(self.rel(">=", o))

    __hash__ = object.__hash__

    def __bool__(self):
        raise OutOfSubset("symbolic value used in control flow")

    def __float__(self):
        raise OutOfSubset("symbolic value converted to float")

    def __index__(self):
        raise OutOfSubset("symbolic value used as index")

    def sign(self):
        """sign class '+', '0+', '-', '0-', '0' or None: propagated along the computation (sg), else read off the
        normal form, else looked up among the polynomials whose sign is a precondition"""
        if self.sg is not None:
            return self.sg if self.sg != "?" else None
        r = self._sign()
        self.sg = r if r is not None else "?"
        return r

    def _sign(self):
        if self.n.is_zero():
            return "0"
        if not self.d.is_one():
            k = CTX.knownA.get(self.key())
            if k is not None:
                return k
        sn = CTX.poly_sign(self.n)
        if sn is None:
            sn = CTX.known.get(self.n.key())
        sd = self.den_sign()
        if sd is None and not self.d.is_one():
            sd = CTX.known.get(self.d.key())
        if sn is None or sd is None:
            return None
        flip = sd in ("-", "0-")
        strict = sn in ("+", "-")
        pos = (sn in ("+", "0+")) != flip
        return ("+" if strict else "0+") if pos else ("-" if strict else "0-")

    def num(self, envget):
        return self.n.eval(envget) / self.d.eval(envget)

    def __repr__(self):
        nm = CTX.name
        if self.d.is_one():
            return f"A[{self.n.to_str(nm)}]"
        return f"A[({self.n.to_str(nm)})/({self.d.to_str(nm)})]"


_ONE = Poly.const(1)


def _remember_sign(r):
    """a sign established along the computation (e.g. of a square) is remembered for the normal form, so that the same
    polynomial reached by another route (T^2 - |p|^2 + |p|^2) is recognised"""
    if r.sg in ("+", "-", "0+", "0-") and not r.d.is_one():
        k = r.key()
        old = CTX.knownA.get(k)
        if old is None or (old in ("0+", "0-") and r.sg in ("+", "-")):
            CTX.knownA[k] = r.sg
        return
    if r.sg in ("+", "-", "0+", "0-") and r.d.is_one() and r.n.nterms() > 1:
        k = r.n.key()
        old = CTX.known.get(k)
        if old is None or (old in ("0+", "0-") and r.sg in ("+", "-")):
            CTX.known[k] = r.sg


def _sg_add(a, b):
    if a is None or b is None:
        return None
    if a == "0":
        return b
    if b == "0":
        return a
    pa, pb = a in ("+", "0+"), b in ("+", "0+")
    if pa != pb:
        return None
    strict = a in ("+", "-") or b in ("+", "-")
    return ("+" if strict else "0+") if pa else ("-" if strict else "0-")


def _sg_mul(a, b):
    if a == "0" or b == "0":
        return "0"
    if a is None or b is None:
        return None
    pos = (a in ("+", "0+")) == (b in ("+", "0+"))
    strict = a in ("+", "-") and b in ("+", "-")
    return ("+" if strict else "0+") if pos else ("-" if strict else "0-")


def _sg_neg(a):
    return {None: None, "0": "0", "+": "-", "-": "+", "0+": "0-", "0-": "0+"}[a]


class EnvGet(dict):
    """numeric environment with lazily evaluated derived variables"""

    def __init__(self, ctx, base):
        super().__init__(base)
        self.ctx = ctx

    def __missing__(self, v):
        d = self.ctx.vardef.get(v)
        if d is None:
            raise KeyError(f"no value for variable {self.ctx.name(v)}")
        val = d(self)
        self[v] = val
        return val


# ------------------------------------------------------------------------------------------ Booleans
class B:
    def __init__(self, f):
        self.f = f

    def __and__(self, o):
        return B(f_and(self.f, _bf(o)))

    __rand__ = __and__

    def __or__(self, o):
        return B(f_or(self.f, _bf(o)))

    __ror__ = __or__

    def __invert__(self):
        return B(f_not(self.f))

    def __eq__(self, o):
        return B(f_iff(self.f, _bf(o)))

    def __ne__(self, o):
        return B(f_not(f_iff(self.f, _bf(o))))

    __hash__ = object.__hash__

    def __mul__(self, o):
        return Junk()

    __rmul__ = __mul__

    def __bool__(self):
        raise OutOfSubset("symbolic Boolean used in control flow")


def _bf(o):
    if isinstance(o, B):
        return o.f
    if isinstance(o, bool):
        return ("const", o)
    raise OutOfSubset(f"Boolean combined with {type(o).__name__}")


class Junk:
    """value that may only flow into the nan=/posinf=/neginf= keywords of nan_to_num"""

    def _j(self, *a, **k):
        return self

    __mul__ = __rmul__ = __add__ = __radd__ = __sub__ = __rsub__ = __neg__ = __truediv__ = __rtruediv__ = _j

    def __bool__(self):
        raise OutOfSubset("inf/nan-valued expression used in control flow")


# ------------------------------------------------------------------------------------------ angles
def _mp():
    import mpmath
    return mpmath


class PiMul:
    """k*pi with rational k"""

    def __init__(self, k):
        self.k = Fr(k)

    def _k(self, o):
        if isinstance(o, A):
            c = o.const()
            if c is None:
                raise OutOfSubset("symbolic multiple of pi")
            return c
        return rat(o)

    def __mul__(self, o):
        if isinstance(o, (B, Junk)):
            return Junk()
        return PiMul(self.k * self._k(o))

    __rmul__ = __mul__

    def __truediv__(self, o):
        return PiMul(self.k / self._k(o))

    def __neg__(self):
        return PiMul(-self.k)

    def __add__(self, o):
        if isinstance(o, PiMul):
            return PiMul(self.k + o.k)
        if isinstance(o, (int, float, Fr)) and rat(o) == 0:
            return self
        return self.ang() + o

    __radd__ = __add__

    def __sub__(self, o):
        return self + (-o)

    def __rsub__(self, o):
        return (-self) + o

    def ang(self):
        k = self.k % 2
        tab = {Fr(0): (1, 0), Fr(1): (-1, 0), Fr(1, 2): (0, 1), Fr(3, 2): (0, -1)}
        if k not in tab:
            raise OutOfSubset(f"pi multiple {self.k}")
        c, s = tab[k]
        return Ang(A.of(c), A.of(s), {"pi": self.k})

    def as_alg(self):
        return A.var(_pi_var()) * self.k

    def __lt__(self, o): return A.of(self) < o
    def __gt__(self, o): return A.of(self) > o
    def __le__(self, o): return A.of(self) <= o
    def __ge__(self, o): return A.of(self) >= o


def _pi_var():
    if "PI" not in CTX.memo:
        v = CTX.new("PI", "+", lambda env: _mp().pi)
        CTX.memo["PI"] = v
        # coarse rational enclosure is all the solver ever needs about pi
        p = Poly.var(v)
        CTX.hyp(f_and(f_rel(p - Fr(314159, 100000), ">"), f_rel(p - Fr(314160, 100000), "<")))
    return CTX.memo["PI"]


class Ang:
    """an angle: cosine and sine as Alg, a linear form over named atoms (units: the atoms themselves, 'pi' in units of pi)"""

    def __init__(self, c, s, lin=None):
        self.c = c
        self.s = s
        self.lin = lin

    @staticmethod
    def atom(name, lo=None, hi=None, value=None, free=False):
        """a new named angle with fresh cos/sin variables; (lo,hi) window in units of pi"""
        ctx = CTX
        cv = ctx.new(f"c_{name}")
        sv = ctx.new(f"s_{name}")
        ctx.add_rule(((sv, 2),), Poly.const(1) - Poly.var(cv, 2))
        ctx.hyp(f_rel(Poly.var(cv, 2) + Poly.var(sv, 2) - 1, "=="))
        if lo is not None:
            ctx.ranges[name] = (Fr(lo), Fr(hi))
        nm = name
        ctx.atomval[nm] = value
        a = Ang(A.var(cv), A.var(sv), {nm: Fr(1)})
        a.cv, a.sv, a.name = cv, sv, nm
        return a

    def _lin(self, o, sign):
        if self.lin is None or o.lin is None:
            return None
        d = dict(self.lin)
        for k, v in o.lin.items():
            d[k] = d.get(k, Fr(0)) + sign * v
        return {k: v for k, v in d.items() if v != 0}

    def __add__(self, o):
        if isinstance(o, PiMul):
            o = o.ang()
        if isinstance(o, Ang):
            r = Ang(self.c * o.c - self.s * o.s, self.s * o.c + self.c * o.s, self._lin(o, 1))
            # window bookkeeping for `(phi + pi) % (2 pi) - pi`
            for a, b in ((self, o), (o, self)):
                w = getattr(a, "window", None)
                if w is not None and b.lin is not None and set(b.lin) <= {"pi"}:
                    k = b.lin.get("pi", Fr(0))
                    r.window = (w[0] + k, w[1] + k)
                    r.shift = (a, k)
                    break
            return r
        if isinstance(o, (int, float, Fr)) and rat(o) == 0:
            return self
        if isinstance(o, A) and o.const() == 0:
            return self
        if isinstance(o, (B, Junk)):
            return Junk()
        return self.as_alg() + o

    __radd__ = __add__

    def __neg__(self):
        return Ang(self.c, -self.s, None if self.lin is None else {k: -v for k, v in self.lin.items()})

    def __pos__(self):
        return self

    def __sub__(self, o):
        if isinstance(o, PiMul):
            o = o.ang()
        if isinstance(o, Ang):
            return self + (-o)
        if isinstance(o, (int, float, Fr)) and rat(o) == 0:
            return self
        return self.as_alg() - o

    def __rsub__(self, o):
        return (-self) + o

    def __mul__(self, k):
        if isinstance(k, (B, Junk)):
            return Junk()
        if isinstance(k, A):
            kc = k.const()
            if kc is None:
                return self.as_alg() * k
            k = kc
        if isinstance(k, (Ang, Lg, PiMul)):
            return self.as_alg() * A.of(k)
        k = rat(k)
        if k == 1:
            return self
        if k == -1:
            return -self
        if k == 0:
            return PiMul(0).ang()
        if k.denominator == 1 and abs(k) <= 4:
            r = self
            for _ in range(abs(int(k)) - 1):
                r = r + self
            return r if k > 0 else -r
        if k == Fr(1, 2):
            return self.half()
        if k == Fr(-1, 2):
            return -self.half()
        return self.as_alg() * k

    __rmul__ = __mul__

    def __truediv__(self, o):
        if isinstance(o, (int, float, Fr)) and not isinstance(o, bool) and rat(o) == 2:
            return self.half()
        return self.as_alg() / o

    def bounds(self):
        if self.lin is None:
            return None
        lo = hi = Fr(0)
        for k, v in self.lin.items():
            if k == "pi":
                lo += v; hi += v
                continue
            if k not in CTX.ranges:
                return None
            a, b = CTX.ranges[k]
            lo += min(v * a, v * b); hi += max(v * a, v * b)
        return lo, hi

    def half(self):
        th = getattr(self, "tanhalf", None)
        if th is not None:
            return HalfAng(self)
        b = self.bounds()
        if b is None:
            raise OutOfSubset("half of an angle without known range")
        mk = ("half",) + self.c.key() + self.s.key()
        if mk in CTX.memo:
            return CTX.memo[mk]
        lo, hi = b[0] / 2, b[1] / 2
        if not (lo >= Fr(-1, 2) and hi <= Fr(1, 2)):
            raise OutOfSubset(f"half-angle range {lo}..{hi}")
        parent = self
        h = Ang.atom(CTX.fresh_atom("half"), lo, hi, value=lambda env: parent.numval(env) / 2)
        ch, sh = Poly.var(h.cv), Poly.var(h.sv)
        c2 = A(ch * ch - sh * sh)
        s2 = A(2 * sh * ch)
        CTX.hyp(self.c.rel("==", c2)); CTX.hyp(self.s.rel("==", s2))
        CTX.hyp(f_rel(ch, ">=")); CTX.sign[h.cv] = "0+"
        if lo >= 0:
            CTX.hyp(f_rel(sh, ">=")); CTX.sign[h.sv] = "0+"
            if lo > 0 or b[0] > 0 or self._strict_pos():
                pass
        if hi <= 0:
            CTX.hyp(f_rel(sh, "<=")); CTX.sign[h.sv] = "0-"
        # a stored input atom can be rewritten in terms of its half angle
        if getattr(self, "cv", None) is not None and self.c.key() == A.var(self.cv).key():
            CTX.add_rule(((self.cv, 1),), CTX.reduce(ch * ch - sh * sh))
            CTX.add_rule(((self.sv, 1),), CTX.reduce(2 * sh * ch))
            CTX.notes.append("half-angle substitution")
            # strictness of the half angle follows from strictness of the parent
            if CTX.sign.get(self.sv) == "+":
                CTX.sign[h.sv] = "+"; CTX.sign[h.cv] = "+"
                CTX.hyp(f_rel(sh, ">")); CTX.hyp(f_rel(ch, ">"))
        CTX.memo[mk] = h
        return h

    def _strict_pos(self):
        return False

    def __mod__(self, o):
        if isinstance(o, PiMul) and o.k == 2:
            parent = self
            r = Ang(self.c, self.s, None)
            r.window = (Fr(0), Fr(2))
            r.modparent = parent
            return r
        raise OutOfSubset("% with modulus other than 2*pi")

    def __abs__(self):
        b = self.bounds()
        if b is None:
            raise OutOfSubset("abs of an angle without known range")
        if b[0] >= 0:
            return self
        if b[1] <= 0:
            return -self
        raise OutOfSubset(f"abs of angle with range {b}")

    def win(self):
        w = getattr(self, "window", None)
        if w is not None:
            return w
        return self.bounds()

    def numval(self, env):
        mp = _mp()
        mod = getattr(self, "modparent", None)
        if mod is not None:
            v = mod.numval(env)
            return v - 2 * mp.pi * mp.floor(v / (2 * mp.pi))
        sh = getattr(self, "shift", None)
        if sh is not None:
            return sh[0].numval(env) + sh[1] * mp.pi
        if self.lin is not None:
            tot = mp.mpf(0)
            for k, q in self.lin.items():
                if k == "pi":
                    tot += mp.mpf(q.numerator) / q.denominator * mp.pi
                else:
                    f = CTX.atomval.get(k)
                    if f is None:
                        raise KeyError(f"no numeric value for angle atom {k}")
                    tot += mp.mpf(q.numerator) / q.denominator * f(env)
            return tot
        return mp.atan2(self.s.num(env), self.c.num(env))

    def as_alg(self):
        w = self.win()
        k = ("ang",) + self.c.key() + self.s.key() + (str(w),)
        if k not in CTX.opaque:
            me = self
            v = CTX.new(f"angval{len(CTX.names)}", None, lambda env: me.numval(env))
            CTX.opaque[k] = dict(var=v, kind="ang", args=(self.c, self.s), window=w, obj=self)
            if w is not None:
                pi = Poly.var(_pi_var())
                CTX.hyp(f_and(f_rel(Poly.var(v) - pi.scale(w[0]), ">="), f_rel(Poly.var(v) - pi.scale(w[1]), "<=")))
        return A.var(CTX.opaque[k]["var"])

    def __eq__(self, o):
        if isinstance(o, PiMul):
            o = o.ang()
        if isinstance(o, Ang):
            wa, wb = self.win(), o.win()
            if wa is not None and wb is not None and max(wa[1], wb[1]) - min(wa[0], wb[0]) <= 2:
                # both in a common window of length <= 2*pi: equal iff cos and sin equal, except both ends of a closed window
                return B(f_and(self.c.rel("==", o.c), self.s.rel("==", o.s)))
            return B(A.of(self).rel("==", A.of(o)))
        if isinstance(o, (int, float, Fr, A)):
            return B(self.as_alg().rel("==", o))
        raise OutOfSubset("Ang == " + type(o).__name__)

    def __ne__(self, o):
        return ~(self == o)

    def __lt__(self, o): return self.as_alg() < o
    def __gt__(self, o): return self.as_alg() > o
    def __le__(self, o): return self.as_alg() <= o
    def __ge__(self, o): return self.as_alg() >= o

    __hash__ = object.__hash__

    def __pow__(self, k):
        return self.as_alg() ** k

    def __bool__(self):
        raise OutOfSubset("symbolic value used in control flow")


class HalfAng(Ang):
    """half of an angle theta in (0, pi) whose tan(theta/2) is known rationally; cos/sin are created on demand"""

    def __init__(self, parent):
        self.parent = parent
        self.lin = None if parent.lin is None else {k: v / 2 for k, v in parent.lin.items()}
        self.tan_override = parent.tanhalf
        self._c = self._s = None

    @property
    def c(self):
        if self._c is None:
            self._c = LIB.sqrt((1 + self.parent.c) * Fr(1, 2))
        return self._c

    @property
    def s(self):
        if self._s is None:
            self._s = LIB.sqrt((1 - self.parent.c) * Fr(1, 2))
        return self._s

    def numval(self, env):
        return self.parent.numval(env) / 2


def shift_window(a, k):
    """a + k*pi bookkeeping used by `(phi + pi) % (2 pi) - pi`"""
    return a


class TanV:
    """tan of an angle (or a product of tangents) kept as a projective fraction num/den, so that a/tan(A) is
    a*cos/sin (cotangent reading) and 1/(tan A * tan B) is cosA cosB/(sinA sinB): defined wherever the sines are non-zero"""

    def __init__(self, a=None, num=None, den=None):
        if a is not None:
            num, den = a.s, a.c
        self.num, self.den = num, den

    def __rtruediv__(self, o):
        if self.num.sign() not in ("+", "-"):
            CTX.need("1/tan: sin != 0", f_rel(self.num.n, "!="))
        return A.of(o) * self.den * self.num.recip()

    def as_alg(self):
        if self.den.sign() not in ("+", "-"):
            CTX.need("tan: cos != 0", f_rel(self.den.n, "!="))
        return self.num * self.den.recip()

    def __mul__(self, o):
        if isinstance(o, TanV):
            return TanV(num=self.num * o.num, den=self.den * o.den)
        if isinstance(o, (int, float, Fr, A)):
            return TanV(num=self.num * A.of(o), den=self.den)
        return self.as_alg() * A.of(o)

    __rmul__ = __mul__

    def __truediv__(self, o):
        return self.as_alg() / o

    def __neg__(self):
        return TanV(num=-self.num, den=self.den)

    def __add__(self, o): return self.as_alg() + o
    __radd__ = __add__
    def __sub__(self, o): return self.as_alg() - o
    def __rsub__(self, o): return o - self.as_alg()
    def __pow__(self, k): return self.as_alg() ** k


# ------------------------------------------------------------------------------------------ logarithms
class Lg:
    """sum q_i * log(P_i) with P_i > 0"""

    def __init__(self, terms):
        acc = {}
        for q, p in terms:
            if p.const() == 1:
                continue
            k = p.key()
            acc[k] = (acc[k][0] + q, p) if k in acc else (q, p)
        self.terms = [(q, p) for q, p in acc.values() if q != 0]

    def __neg__(self):
        return Lg([(-q, p) for q, p in self.terms])

    def __pos__(self):
        return self

    def __add__(self, o):
        if isinstance(o, Lg):
            return Lg(self.terms + o.terms)
        if isinstance(o, (int, float, Fr)) and rat(o) == 0:
            return self
        if isinstance(o, (B, Junk)):
            return Junk()
        return self.as_alg() + o

    def __radd__(self, o):
        if isinstance(o, (int, float, Fr)) and rat(o) == 0:
            return self
        return A.of(o) + self.as_alg()

    def __sub__(self, o):
        if isinstance(o, Lg):
            return self + (-o)
        if isinstance(o, (int, float, Fr)) and rat(o) == 0:
            return self
        return self.as_alg() - o

    def __rsub__(self, o):
        return (-self).__radd__(o)

    def __mul__(self, k):
        if isinstance(k, (B, Junk)):
            return Junk()
        if isinstance(k, A):
            kc = k.const()
            if kc is None:
                return self.as_alg() * k
            k = kc
        if isinstance(k, (Lg, Ang, PiMul)):
            return self.as_alg() * A.of(k)
        k = rat(k)
        return Lg([(q * k, p) for q, p in self.terms])

    __rmul__ = __mul__

    def __truediv__(self, o):
        if isinstance(o, (int, float, Fr)) and not isinstance(o, bool):
            return self * (1 / rat(o))
        return self.as_alg() / o

    def denom(self):
        d = 1
        for q, _ in self.terms:
            d = d * q.denominator // math.gcd(d, q.denominator)
        return d

    def prod(self, scale=1):
        e = A.of(1)
        for q, p in self.terms:
            q = q * scale
            if q.denominator != 1:
                raise OutOfSubset("fractional log coefficient")
            n = int(q)
            for _ in range(abs(n)):
                e = e * (p if n > 0 else p.recip())
        return e

    def exp(self):
        d = self.denom()
        if d == 1:
            return self.prod()
        if d == 2:
            return LIB.sqrt(self.prod(2))
        raise OutOfSubset("exp of log with denominator > 2")

    def numval(self, env):
        mp = _mp()
        tot = mp.mpf(0)
        for q, p in self.terms:
            tot += mp.mpf(q.numerator) / q.denominator * mp.log(p.num(env))
        return tot

    def as_alg(self):
        d = self.denom()
        arg = self.prod(d)
        k = ("log", d) + arg.key()
        if k not in CTX.opaque:
            me = self
            v = CTX.new(f"logval{len(CTX.names)}", None, lambda env: me.numval(env))
            CTX.opaque[k] = dict(var=v, kind="log", args=(arg,), window=d, obj=self)
        return A.var(CTX.opaque[k]["var"])

    def eq_formula(self, o):
        d = self - o
        if not d.terms:
            return TRUE
        return d.prod(d.denom()).rel("==", 1)

    def __eq__(self, o):
        if isinstance(o, Lg):
            return B(self.eq_formula(o))
        return B(self.as_alg().rel("==", o))

    def __ne__(self, o):
        return ~(self == o)

    def __lt__(self, o): return self.as_alg() < o
    def __gt__(self, o): return self.as_alg() > o
    def __le__(self, o): return self.as_alg() <= o
    def __ge__(self, o): return self.as_alg() >= o

    __hash__ = object.__hash__

    def __pow__(self, k):
        return self.as_alg() ** k

    def __abs__(self):
        return LIB.absolute(self.as_alg())

    def __bool__(self):
        raise OutOfSubset("symbolic value used in control flow")


# ------------------------------------------------------------------------------------------ lib
def _pull_square(p, ctx):
    """p = outside^2 * inside with outside a monomial (with rational coefficient) of sign-known variables"""
    if p.is_zero():
        return Poly({}), Poly({})
    g = p.content_mono()
    out_m = []
    in_m = []
    for v, e in g:
        sv = ctx.sign.get(v)
        if sv in ("+", "0+") and e >= 2:
            out_m.append((v, e // 2))
            if e % 2:
                in_m.append((v, 1))
        elif sv in ("-", "0-") and e >= 2:
            out_m.append((v, e // 2))
            if e % 2:
                in_m.append((v, 1))
        else:
            in_m.append((v, e))
    rest = p.div_mono(g)
    outside = Poly({tuple(out_m): Fr(1)})
    # sign fix for negative-sign variables pulled out: |v|^k = (-v)^k
    sgn = 1
    for v, k in out_m:
        if ctx.sign.get(v) in ("-", "0-") and k % 2:
            sgn = -sgn
    if sgn < 0:
        outside = -outside
    inside = rest * Poly({tuple(in_m): Fr(1)})
    # rational content: make the smallest perfect-square extraction of the gcd of coefficients
    coeffs = list(inside.t.values())
    if coeffs:
        from functools import reduce
        num = reduce(math.gcd, [abs(c.numerator) for c in coeffs])
        den = reduce(lambda a, b: a * b // math.gcd(a, b), [c.denominator for c in coeffs])
        sn, sd = math.isqrt(num), math.isqrt(den)
        if num > 1 and sn * sn == num or den > 1 and sd * sd == den:
            kn = sn if sn * sn == num else 1
            kd = sd if sd * sd == den else 1
            if kn > 1 or kd > 1:
                outside = outside.scale(Fr(kn, kd))
                inside = inside.scale(Fr(kd * kd, kn * kn))
    return outside, inside


def _unreduced_sqrt(ins, ctx):
    """the rule s^2 -> 1-c^2 can hide a perfect square: retry with c^2 -> 1-s^2 for the angle atoms involved"""
    vs = ins.vars()
    pairs = [(lhs[0][0], rhs) for lhs, rhs in ctx.rules if len(lhs) == 1 and lhs[0][1] == 2 and rhs.nterms() == 2]
    cand = []
    for sv, rhs in pairs:
        # rhs = 1 - c^2
        cvs = [m[0][0] for m in rhs.t if m]
        if len(cvs) != 1 or cvs[0] not in vs:
            continue
        cand.append((sv, cvs[0]))
    if not cand or len(cand) > 3:
        return None
    import itertools
    for k in range(1, len(cand) + 1):
        for sub in itertools.combinations(cand, k):
            q = ins
            for sv, cv in sub:
                rules = [(((cv, 2),), Poly.const(1) - Poly.var(sv, 2))]
                q = q.subs_rules(rules, {cv: [0]})
            out, rest = _pull_square(q, ctx)
            if rest.is_const() and rest.const_value() == 1:
                return out
            r = _poly_sqrt(rest)
            if r is not None:
                return out * r
    return None


class Lib:
    inf = math.inf
    nan = math.nan

    @property
    def pi(self):
        return PiMul(1)

    # ---- square root
    def sqrt(self, a):
        if isinstance(a, (B, Junk)):
            return Junk()
        a = A.of(a)
        ctx = CTX
        c = a.const()
        if c is not None:
            if c < 0:
                ctx.need("sqrt of negative constant", FALSE)
                raise OutOfSubset("sqrt of a negative constant")
            n, d = math.isqrt(c.numerator), math.isqrt(c.denominator)
            if n * n == c.numerator and d * d == c.denominator:
                return A.of(Fr(n, d))
        key = ("sqrt",) + a.key()
        if key in ctx.memo:
            return ctx.memo[key]
        n, d = a.n, a.d
        s_arg = a.sign()
        if not d.is_one() and d.nterms() == 1:
            # monomial denominator c*prod v^e:  sqrt(n/d) = sqrt(n * c * prod v^(e%2)) / (c * prod |v|^(e//2 + e%2))
            (dm, dc), = d.t.items()
            odd = tuple((v, 1) for v, e in dm if e % 2)
            den = A.of(abs(dc))
            for v, e in dm:
                av = self.absolute(A.var(v))
                for _ in range(e // 2 + e % 2):
                    den = den * av
            rad = A(n * Poly({odd: dc if dc > 0 else -dc}))
            if dc < 0:
                rad = -rad
            if rad.sg is None and s_arg in ("+", "0+"):
                rad.sg = s_arg
            if any(ctx.sign.get(v) not in ("+", "-") for v, _ in dm):
                ctx.need("sqrt: denominator != 0", f_rel(Poly({dm: Fr(1)}), "!="))
            res = self.sqrt(rad) * den.recip()
            ctx.memo[key] = res
            return res
        if not d.is_one():
            # sqrt(n/d) = sqrt(n*d)/|d|
            dA = A(d)
            ds = dA.sign()
            absd = self.absolute(dA)
            nd = A(n * d)
            if nd.sg is None and s_arg in ("+", "0+"):
                nd.sg = s_arg          # n*d = (n/d)*d^2 has the sign class of n/d (d != 0)
            res = self.sqrt(nd) * absd.recip()
            if ds not in ("+", "-"):
                ctx.need("sqrt: denominator != 0", f_rel(d, "!="))
            ctx.memo[key] = res
            return res
        out, ins = _pull_square(n, ctx)
        if ins.is_const():
            cv = ins.const_value()
            if cv < 0:
                ctx.need("sqrt argument >= 0", f_rel(n, ">="))
                raise OutOfSubset("sqrt of a syntactically negative term")
            if cv == 1:
                res = A(out)
                ctx.memo[key] = res
                return res
        sq = _poly_sqrt(ins)
        if sq is None:
            sq = _unreduced_sqrt(ins, ctx)
        if sq is not None:
            ss = ctx.poly_sign(sq)
            if ss in ("+", "0+"):
                res = A(out * sq)
                ctx.memo[key] = res
                return res
            if ss in ("-", "0-"):
                res = A(-(out * sq))
                ctx.memo[key] = res
                return res
            res = A(out) * self.absolute(A(sq))
            ctx.memo[key] = res
            return res
        key2 = ("sqrt-in",) + (ins.key(),)
        if key2 in ctx.memo:
            r = ctx.memo[key2]
        else:
            s = ctx.poly_sign(ins) or ctx.known.get(ins.key())
            if s not in ("+", "0+") and s_arg in ("+", "0+") and ctx.poly_sign(out) in ("+", "-"):
                s = s_arg              # radicand = out^2 * ins with out != 0
            if s in ("-",):
                ctx.need("sqrt argument >= 0", FALSE)
            if s not in ("+", "0+"):
                ctx.need("sqrt argument >= 0", f_rel(ins, ">="))
            insA = A(ins, raw=True)
            r = ctx.new(f"sq{len(ctx.names)}", "+" if s == "+" else "0+",
                        lambda env, insA=insA: _mp().sqrt(max(insA.num(env), 0)))
            pr = Poly.var(r)
            ctx.hyp(f_and(f_rel(pr, ">" if s == "+" else ">="), f_rel(pr * pr - ins, "==")))
            ctx.add_rule(((r, 2),), ins)
            ctx.radicals[r] = ins
            ctx.memo[key2] = r
        res = A(out * Poly.var(r))
        ctx.memo[key] = res
        return res

    def cbrt(self, a):
        a = A.of(a)
        key = ("cbrt",) + a.key()
        if key in CTX.memo:
            return CTX.memo[key]
        r = CTX.new(f"cb{len(CTX.names)}", a.sign(), lambda env: _mp().cbrt(a.num(env)) if a.num(env) >= 0 else -_mp().cbrt(-a.num(env)))
        pr = A.var(r)
        CTX.hyp((pr * pr * pr).rel("==", a))
        CTX.memo[key] = pr
        return pr

    # ---- trigonometry
    def cos(self, a):
        if isinstance(a, PiMul):
            a = a.ang()
        if isinstance(a, Ang):
            return a.c
        if isinstance(a, (int, float)) and a == 0:
            return A.of(1)
        raise OutOfSubset(f"cos({type(a).__name__})")

    def sin(self, a):
        if isinstance(a, PiMul):
            a = a.ang()
        if isinstance(a, Ang):
            return a.s
        if isinstance(a, (int, float)) and a == 0:
            return A.of(0)
        raise OutOfSubset(f"sin({type(a).__name__})")

    def tan(self, a):
        if isinstance(a, Ang):
            t = getattr(a, "tan_override", None)
            if t is not None:
                return TanV(num=t.n and A(t.n), den=A(t.d))
            return TanV(a)
        raise OutOfSubset(f"tan({type(a).__name__})")

    def arctan2(self, y, x):
        y, x = A.of(y), A.of(x)
        mk = ("atan2",) + y.key() + x.key()
        if mk in CTX.memo:
            return CTX.memo[mk]
        r = self.sqrt(x * x + y * y)
        if r.sign() != "+":
            CTX.need("arctan2: (x, y) != (0, 0)", r.rel(">"))
        c, s = x * r.recip(), y * r.recip()
        name = CTX.fresh_atom("atan2")
        CTX.ranges[name] = (Fr(-1), Fr(1))
        CTX.atomval[name] = lambda env: _mp().atan2(y.num(env), x.num(env))
        a = Ang(c, s, {name: Fr(1)})
        a.kind = "atan2"
        CTX.memo[mk] = a
        return a

    def arccos(self, u):
        u = A.of(u)
        mk = ("acos",) + u.key()
        if mk in CTX.memo:
            return CTX.memo[mk]
        one_minus = 1 - u * u
        if one_minus.sign() not in ("+", "0+"):
            CTX.need("arccos: |u| <= 1", one_minus.rel(">="))
        sn = self.sqrt(one_minus)
        name = CTX.fresh_atom("acos")
        CTX.ranges[name] = (Fr(0), Fr(1))
        CTX.atomval[name] = lambda env: _mp().acos(min(1, max(-1, u.num(env))))
        a = Ang(u, sn, {name: Fr(1)})
        a.kind = "acos"
        CTX.memo[mk] = a
        return a

    def arcsin(self, u):
        u = A.of(u)
        mk = ("asin",) + u.key()
        if mk in CTX.memo:
            return CTX.memo[mk]
        one_minus = 1 - u * u
        if one_minus.sign() not in ("+", "0+"):
            CTX.need("arcsin: |u| <= 1", one_minus.rel(">="))
        cs = self.sqrt(one_minus)
        name = CTX.fresh_atom("asin")
        CTX.ranges[name] = (Fr(-1, 2), Fr(1, 2))
        CTX.atomval[name] = lambda env: _mp().asin(min(1, max(-1, u.num(env))))
        a = Ang(cs, u, {name: Fr(1)})
        CTX.memo[mk] = a
        return a

    def arctan(self, u):
        u = A.of(u)
        mk = ("atan",) + u.key()
        if mk in CTX.memo:
            return CTX.memo[mk]
        h = self.sqrt(1 + u * u)
        lo, hi = Fr(-1, 2), Fr(1, 2)
        su = u.sign()
        if su in ("+", "0+"):
            lo = Fr(0)
        elif su in ("-", "0-"):
            hi = Fr(0)
        name = CTX.fresh_atom("atan")
        CTX.ranges[name] = (lo, hi)
        CTX.atomval[name] = lambda env: _mp().atan(u.num(env))
        a = Ang(h.recip(), u * h.recip(), {name: Fr(1)})
        a.kind = "atan"
        CTX.memo[mk] = a
        return a

    # ---- exponentials
    def exp(self, a):
        if isinstance(a, Lg):
            return a.exp()
        if isinstance(a, (int, float)) and a == 0:
            return A.of(1)
        raise OutOfSubset(f"exp({type(a).__name__})")

    def log(self, a):
        if isinstance(a, TanV):
            a = a.as_alg()
        a = A.of(a)
        if a.sign() != "+":
            CTX.need("log argument > 0", a.rel(">"))
        return Lg([(Fr(1), a)])

    def arcsinh(self, u):
        u = A.of(u)
        w = self.sqrt(u * u + 1)
        return Lg([(Fr(1), u + w)])

    def arctanh(self, u):
        u = A.of(u)
        CTX.need("arctanh: |u| < 1", f_and((1 + u).rel(">"), (1 - u).rel(">")))
        return Lg([(Fr(1, 2), 1 + u), (Fr(-1, 2), 1 - u)])

    def sinh(self, a):
        if isinstance(a, Lg):
            e = a.exp()
            return (e - e.recip()) * Fr(1, 2)
        raise OutOfSubset("sinh of a non-logarithmic value")

    def cosh(self, a):
        if isinstance(a, Lg):
            e = a.exp()
            return (e + e.recip()) * Fr(1, 2)
        raise OutOfSubset("cosh of a non-logarithmic value")

    def tanh(self, a):
        if isinstance(a, Lg):
            e = a.exp()
            e2 = e * e
            return (e2 - 1) * (e2 + 1).recip()
        raise OutOfSubset("tanh of a non-logarithmic value")

    # ---- piecewise
    def absolute(self, a):
        if isinstance(a, Ang):
            return abs(a)
        if isinstance(a, (B, Junk)):
            return Junk()
        a = A.of(a)
        s = a.sign()
        if s in ("+", "0+", "0"):
            return a
        if s in ("-", "0-"):
            return -a
        mk = ("abs",) + a.key()
        mk2 = ("abs",) + (-a).key()
        if mk in CTX.memo:
            return CTX.memo[mk]
        v = CTX.new(f"abs{len(CTX.names)}", "0+", lambda env: abs(a.num(env)))
        av = A.var(v)
        CTX.hyp(f_and(f_rel(Poly.var(v), ">="), f_or(av.rel("==", a), av.rel("==", -a))))
        CTX.memo[mk] = av
        CTX.memo[mk2] = av
        return av

    abs = absolute
    fabs = absolute

    def sign(self, a):
        a = A.of(a)
        s = a.sign()
        if s == "+":
            return A.of(1)
        if s == "-":
            return A.of(-1)
        if s == "0":
            return A.of(0)
        mk = ("sign",) + a.key()
        if mk in CTX.memo:
            return CTX.memo[mk]
        v = CTX.new(f"sgn{len(CTX.names)}", None, lambda env: (a.num(env) > 0) - (a.num(env) < 0))
        av = A.var(v)
        CTX.hyp(f_and(f_imp(a.rel(">"), av.rel("==", 1)), f_imp(a.rel("<"), av.rel("==", -1)), f_imp(a.rel("=="), av.rel("==", 0))))
        CTX.add_rule(((v, 3),), Poly.var(v))
        CTX.memo[mk] = av
        return av

    def copysign(self, a, b):
        a, b = A.of(a), A.of(b)
        m = self.absolute(a)
        s = b.sign()
        if s in ("+", "0+", "0"):
            return m          # numpy: copysign(x, +0.0) = |x|
        if s == "-":
            return -m
        # copysign(|b|, b) = b
        if m.key() == self.absolute(b).key():
            return b
        # copysign(x, v) with v = copysign(mb, bb) and x = mb^2 (so x = 0 whenever v = 0):  = copysign(x, bb)
        info = CTX.cps.get(b.key())
        if info is not None:
            mb, bb = info
            if m.key() == (mb * mb).key():
                return self.copysign(m, bb)
        mk = ("copysign",) + m.key() + b.key()
        if mk in CTX.memo:
            return CTX.memo[mk]
        v = CTX.new(f"cps{len(CTX.names)}", None, lambda env: abs(m.num(env)) if b.num(env) >= 0 else -abs(m.num(env)))
        av = A.var(v)
        CTX.hyp(f_and(f_imp(b.rel(">="), av.rel("==", m)), f_imp(b.rel("<"), av.rel("==", -m))))
        if m.d.is_one():
            CTX.add_rule(((v, 2),), CTX.reduce(m.n * m.n))      # v = +-m
        CTX.cps[av.key()] = (m, b)
        CTX.memo[mk] = av
        return av

    def maximum(self, a, b):
        if isinstance(a, Ang) or isinstance(b, Ang):
            raise OutOfSubset("maximum of angles")
        a, b = A.of(a), A.of(b)
        s = (a - b).sign()
        if s in ("+", "0+", "0"):
            return a
        if s in ("-", "0-"):
            return b
        mk = ("max",) + tuple(sorted([a.key(), b.key()]))
        if mk in CTX.memo:
            return CTX.memo[mk]
        v = CTX.new(f"max{len(CTX.names)}", None, lambda env: max(a.num(env), b.num(env)))
        av = A.var(v)
        CTX.hyp(f_and(av.rel(">=", a), av.rel(">=", b), f_or(av.rel("==", a), av.rel("==", b))))
        sa, sb = a.sign(), b.sign()
        if sa in ("+", "0+", "0") or sb in ("+", "0+", "0"):
            CTX.sign[v] = "+" if "+" in (sa, sb) else "0+"
        CTX.memo[mk] = av
        return av

    def minimum(self, a, b):
        if isinstance(a, Ang) or isinstance(b, Ang):
            raise OutOfSubset("minimum of angles")
        a, b = A.of(a), A.of(b)
        s = (a - b).sign()
        if s in ("+", "0+", "0"):
            return b
        if s in ("-", "0-"):
            return a
        mk = ("min",) + tuple(sorted([a.key(), b.key()]))
        if mk in CTX.memo:
            return CTX.memo[mk]
        v = CTX.new(f"min{len(CTX.names)}", None, lambda env: min(a.num(env), b.num(env)))
        av = A.var(v)
        CTX.hyp(f_and(av.rel("<=", a), av.rel("<=", b), f_or(av.rel("==", a), av.rel("==", b))))
        CTX.memo[mk] = av
        return av

    def nan_to_num(self, v, nan=0.0, posinf=None, neginf=None, copy=True):
        # identity on finite values; definedness obligations recorded while computing v guarantee finiteness
        return v

    def isclose(self, a, b, rtol=1e-05, atol=1e-08, equal_nan=False):
        a, b = _num(a), _num(b)
        rtol, atol = A.of(rtol), A.of(atol)
        return B((self.absolute(a - b)).rel("<=", atol + rtol * self.absolute(b)))

    def where(self, c, a, b):
        raise OutOfSubset("where")


def _num(v):
    return A.of(v)


LIB = Lib()


def to_num(v, env):
    """numeric value (mpmath) of any symbolic value under env"""
    if isinstance(v, A):
        return v.num(env)
    if isinstance(v, (Ang, Lg)):
        return v.numval(env)
    if isinstance(v, PiMul):
        return _mp().pi * v.k.numerator / v.k.denominator
    if isinstance(v, B):
        return f_eval(v.f, env)
    if isinstance(v, (int, float, Fr)):
        return v
    if isinstance(v, TanV):
        return v.num.num(env) / v.den.num(env)
    raise TypeError(type(v))


class SympyShadowLib(Lib):
    """C08: evaluates with the *replacements* documented for the symbolic backend (vector._lib.SympyLib) and records, for every
    occurrence, the obligation that the numeric operation coincides with the replacement (clamp inactive, sign argument
    non-negative).  With all of them discharged on the regular domain, numeric and symbolic evaluation agree by congruence."""

    def _note(self, what, f):
        CTX.__dict__.setdefault("c08", []).append((what, f))

    def maximum(self, a, b):
        a, b = A.of(a), A.of(b)
        keep, other = (b, a) if a.const() is not None and b.const() is None else (a, b)     # SympyLib returns the symbolic argument
        s = (keep - other).sign()
        if s not in ("+", "0+", "0"):
            self._note("maximum(a, b) is its symbolic argument (clamp inactive)", keep.rel(">=", other))
        return keep

    def minimum(self, a, b):
        a, b = A.of(a), A.of(b)
        keep, other = (b, a) if a.const() is not None and b.const() is None else (a, b)
        s = (other - keep).sign()
        if s not in ("+", "0+", "0"):
            self._note("minimum(a, b) is its symbolic argument (clamp inactive)", keep.rel("<=", other))
        return keep

    def copysign(self, a, b):
        a, b = A.of(a), A.of(b)
        real = Lib.copysign(self, a, b)
        if real.key() != a.key():
            self._note("copysign(a, b) is a (sign convention not needed)", real.rel("==", a))
        return a


SHADOWLIB = SympyShadowLib()
