"""Engine A on public methods: parametric symbolic evaluation of the object backend (DESIGN 2.2).

`VectorObject.lib` is replaced, inside the checker process only, by a library of opaque term constructors; coordinates are
opaque tokens registered as `numbers.Real`.  The real constructors, properties, methods, operators, setters and
`_replace_data` of backends/object.py and _methods.py then run on vectors whose coordinates are symbols.  The code cannot
inspect a token without raising, so whatever holds for the tokens holds for every value (parametricity); results are
compared by *term identity*.
"""
from __future__ import annotations

import importlib
import itertools
import math
import numbers

import numpy


# ---- concolic fall-back -------------------------------------------------------------------------------------------------
# Pure mode (VALUATION is None): a token cannot be inspected - whatever is shown holds for every value (parametricity).
# When the code under contract *does* inspect a value (`if phi < pi`, `x or default`, float(x)), the obligation cannot be decided
# parametrically.  Instead of reporting the TypeError of the token as a failure (it is not one), the shard is re-run with the
# tokens carrying concrete values (VALUATION = one of VALUATIONS): comparisons then evaluate to real booleans, execution follows
# the path of that valuation, and the contracts are still compared by term identity along it.  That is BOUNDED (one path per
# valuation) and is labelled so; a failure found this way comes with the concrete valuation, i.e. a real input.
VALUATION = None
INSPECTIONS = 0
VALUATIONS = ("small", "large", "negative-large", "assigned-zero")
INSPECT_MSG = "symbolic value inspected"


def _leaf_value(name):
    import hashlib
    h = int(hashlib.sha1(name.encode()).hexdigest()[:8], 16) / 0xFFFFFFFF       # deterministic in [0, 1]
    if name == "pi":
        return math.pi
    if VALUATION == "small":
        return 0.15 + 0.7 * h
    if VALUATION == "large":
        return 4.0 + 5.0 * h
    if VALUATION == "negative-large":
        return -(4.0 + 5.0 * h)
    # "assigned-zero": every scalar that is not a stored coordinate (values handed to setters, factors, angles, tolerances, keyword
    # values) is exactly zero; stored coordinates are small
    import re
    if re.match(r"^(x|y|rho|phi|z|theta|eta|t|tau)(\d|w\d|[a-z]?_)", name):
        return 0.15 + 0.7 * h
    return 0.0


def teval(t):
    """concrete value of a term under the current VALUATION (numpy semantics for the library functions)"""
    global INSPECTIONS
    INSPECTIONS += 1
    return _teval(t)


def _teval(t):
    if not isinstance(t, T):
        return t
    if not t.args:
        return _leaf_value(t.op)
    kw = {}
    pos = []
    for a in t.args:
        if isinstance(a, T) and not a.args and "=" in a.op:
            k_, v_ = a.op.split("=", 1)
            try:
                kw[k_] = eval(v_, {"inf": math.inf, "nan": math.nan})
            except Exception:
                kw[k_] = None
        else:
            pos.append(_teval(a))
    ops = {"add": lambda a, b: a + b, "sub": lambda a, b: a - b, "mul": lambda a, b: a * b, "truediv": lambda a, b: a / b, "pow": lambda a, b: a ** b,
           "mod": lambda a, b: a % b, "neg": lambda a: -a, "abs": abs, "eq": lambda a, b: a == b, "ne": lambda a, b: a != b, "lt": lambda a, b: a < b,
           "gt": lambda a, b: a > b, "le": lambda a, b: a <= b, "ge": lambda a, b: a >= b, "and": lambda a, b: a & b, "or": lambda a, b: a | b}
    try:
        with numpy.errstate(all="ignore"):
            if t.op in ops:
                return ops[t.op](*pos)
            return getattr(numpy, t.op)(*pos, **kw)
    except Exception as e:
        raise TypeError(f"{INSPECT_MSG} (no concrete value under valuation {VALUATION}: {type(e).__name__})")


def inspected(bad_item):
    return INSPECT_MSG in str(bad_item)


def _concolic_worker(job):
    """run one shard in pure mode; if the code under contract inspected a token, re-run it under each concrete valuation (bounded)"""
    global VALUATION
    modname, fname, args = job
    fn = getattr(importlib.import_module(modname), fname)
    VALUATION = None
    crashed = None
    try:
        res = fn(args)
    except TypeError as e:
        if INSPECT_MSG not in str(e):
            raise
        crashed, res = str(e), None
    if res is not None and not any(inspected(b) for b in res[1]):
        return res + (0,) if isinstance(res, tuple) else res
    keep = [] if res is None else [b for b in res[1] if not inspected(b)]
    seen = {b[0] for b in keep}
    n = 0 if res is None else res[0]
    last = res
    for val in VALUATIONS:
        VALUATION = val
        try:
            r2 = fn(args)
        except TypeError as e:
            if INSPECT_MSG not in str(e):
                VALUATION = None
                raise
            keep.append((f"concolic/undecided/{modname}.{fname}{args!r}", f"not evaluable under valuation {val}: {e}"))
            continue
        finally:
            VALUATION = None
        last = r2
        n = max(n, r2[0])
        for b in r2[1]:
            if b[0] not in seen and not inspected(b):
                seen.add(b[0])
                keep.append((b[0], dict(detail=b[1], concolic_valuation=val, note="the code under contract inspects a value: evaluated along the path of this concrete valuation (bounded)")))
    if last is None:
        raise TypeError(crashed)
    out = (n, keep) + tuple(last[2:])
    return out + (len(VALUATIONS),)


def concolic_map(shard_fn, jobs):
    """pool_map(shard_fn, jobs) with the concolic fall-back; every result gets a trailing count of concrete re-runs (0 = decided parametrically)"""
    from . import common as C
    return C.pool_map(_concolic_worker, [(shard_fn.__module__, shard_fn.__name__, j) for j in jobs])


class T:
    """opaque symbolic term"""
    __slots__ = ("op", "args", "_r")

    def __init__(self, op, *a):
        self.op, self.args, self._r = op, a, None

    def __repr__(self):
        if self._r is None:
            self._r = self.op if not self.args else f"{self.op}({', '.join(map(repr, self.args))})"
        return self._r

    def __eq__(self, o):
        return T("eq", self, o)

    def __ne__(self, o):
        return T("ne", self, o)

    __hash__ = object.__hash__

    def __bool__(self):
        if VALUATION is None:
            raise TypeError("symbolic value inspected (used as bool): " + repr(self))
        return bool(teval(self))

    def __float__(self):
        if VALUATION is None:
            raise TypeError("symbolic value inspected (converted to float)")
        return float(teval(self))

    def __neg__(self):
        return T("neg", self)

    def __pos__(self):
        return self

    def __abs__(self):
        return T("abs", self)


def _bin(n):
    def f(s, o):
        # vectors handle the operation themselves; NumPy arrays (of tokens) broadcast element-wise through their reflected operator
        return NotImplemented if (hasattr(o, "_wrap_result") or isinstance(o, numpy.ndarray)) else T(n, s, o)

    def r(s, o):
        return NotImplemented if (hasattr(o, "_wrap_result") or isinstance(o, numpy.ndarray)) else T(n, o, s)
    return f, r


for _n in "add sub mul truediv pow mod and or lt gt le ge".split():
    _f, _r = _bin(_n)
    setattr(T, f"__{_n}__", _f)
    setattr(T, f"__r{_n}__", _r)
numbers.Real.register(T)


class TLib:
    pi = T("pi")
    inf = math.inf
    nan = math.nan

    def __getattr__(self, name):
        if name.startswith("__"):
            raise AttributeError(name)
        return lambda *a, **k: T(name, *a, *[T(f"{kk}={vv!r}") for kk, vv in sorted(k.items())])


TLIB = TLib()
_installed = False


def install():
    global _installed
    if _installed:
        return
    _installed = True
    import vector.backends.object as O
    O.VectorObject.lib = TLIB


def same(a, b):
    """term identity (tuples compared element-wise); plain numbers compare by value"""
    if isinstance(a, (tuple, list)) and isinstance(b, (tuple, list)):
        return len(a) == len(b) and all(same(x, y) for x, y in zip(a, b))
    if isinstance(a, T) or isinstance(b, T):
        return repr(a) == repr(b)
    try:
        return bool(a == b)
    except Exception:
        return False


AZ = {"xy": ("x", "y"), "rhophi": ("rho", "phi")}
LO = {"z": ("z",), "theta": ("theta",), "eta": ("eta",)}
TE = {"t": ("t",), "tau": ("tau",)}
MOM = {"x": "px", "y": "py", "rho": "pt", "z": "pz", "t": "E", "tau": "mass"}


def systems(dims=(2, 3, 4)):
    for a in AZ:
        if 2 in dims:
            yield (a,)
        for l in LO:
            if 3 in dims:
                yield (a, l)
            for t in TE:
                if 4 in dims:
                    yield (a, l, t)


def names_of(sysm):
    return list(AZ[sysm[0]]) + (list(LO[sysm[1]]) if len(sysm) > 1 else []) + (list(TE[sysm[2]]) if len(sysm) > 2 else [])


def make(sysm, mom, tag):
    import vector
    kw = {(MOM.get(n, n) if mom else n): T(f"{n}{tag}") for n in names_of(sysm)}
    return vector.obj(**kw)


def sysof(v):
    s = [type(v.azimuthal).__name__.replace("AzimuthalObject", "").lower()]
    if hasattr(v, "longitudinal"):
        s.append(type(v.longitudinal).__name__.replace("LongitudinalObject", "").lower())
    if hasattr(v, "temporal"):
        s.append(type(v.temporal).__name__.replace("TemporalObject", "").lower())
    return tuple(s)


def coords(v):
    out = list(v.azimuthal.elements)
    if hasattr(v, "longitudinal"):
        out += list(v.longitudinal.elements)
    if hasattr(v, "temporal"):
        out += list(v.temporal.elements)
    return out


def is_mom(v):
    import vector
    return isinstance(v, vector.Momentum)


def classes_of(v, n):
    """coordinate classes (generic protocol classes) of the first n groups of v"""
    from vector._methods import _aztype, _ltype, _ttype
    out = [_aztype(v)]
    if n >= 2:
        out.append(_ltype(v))
    if n >= 3:
        out.append(_ttype(v))
    return out


def elements_of(v, n):
    out = list(v.azimuthal.elements)
    if n >= 2:
        out += list(v.longitudinal.elements)
    if n >= 3:
        out += list(v.temporal.elements)
    return out


PKDIM = {"planar": 1, "spatial": 2, "lorentz": 3}     # number of coordinate groups a package's kernels consume


def table_call(pk, mod, vecs, scalars=(), order=None, ns=None):
    """call the live table entry directly, in the kernel's contract order: scalars, then the operands' stored coordinates"""
    m = importlib.import_module(f"vector._compute.{pk}.{mod}")
    n = PKDIM[pk]
    key = []
    args = []
    for i, v in enumerate(vecs):
        k = ns[i] if ns else n
        key += classes_of(v, k)
        args += elements_of(v, k)
    if order is not None:
        key.append(order)
    fn, *returns = m.dispatch_map[tuple(key)]
    with numpy.errstate(all="ignore"):
        raw = fn(TLIB, *scalars, *args)
    return raw, returns


SHORT = None


def short(c):
    global SHORT
    if SHORT is None:
        from .views import SHORT as S_
        SHORT = S_
    return SHORT[c]


def expected_vector(first, momentum, raw, returns):
    """what wrapping `raw` (declared `returns`) must give according to the statement of C05: coordinate system named by the
    table entry, stored higher coordinates of the first operand passed through, flavor as given"""
    ret = list(returns)
    drop = [r is None for r in ret]
    ret_classes = [r for r in ret if r is not None]
    raw = list(raw)
    sysm = [short(c) for c in ret_classes]
    co = raw[: sum(2 if i == 0 else 1 for i in range(len(ret_classes)))]
    if not any(drop):
        # pass through the first operand's stored higher groups
        fs = sysof(first)
        fc = coords(first)
        have = len(ret_classes)
        if len(fs) > have:
            sysm += list(fs[have:])
            co += fc[(2 + (have - 1)):]
    return dict(system=tuple(sysm), coords=co, momentum=momentum)


def describe(v):
    return dict(system=sysof(v), coords=coords(v), momentum=is_mom(v))


def vec_equal(actual, exp):
    return actual["system"] == tuple(exp["system"]) and actual["momentum"] == exp["momentum"] and same(actual["coords"], exp["coords"])


def opname(oid):
    """operation an obligation id talks about: 'glue/rotate_euler[XYZ][xy,z|gen]' -> 'rotate_euler', 'operator/v+w[..' -> 'operator/v+w'"""
    parts = oid.split("[")[0].split("/")
    if parts and parts[0] in ("glue", "defined", "typeerror"):
        parts = parts[1:]
    return "/".join(parts)


class Obligations:
    def __init__(self, prop):
        self.prop = prop
        self.items = []
        self.n = 0
        self.bad = []
        self.ops = {}

    def _count(self, oid):
        k = opname(oid)
        self.ops[k] = self.ops.get(k, 0) + 1

    def check(self, oid, ok, detail=None):
        self.n += 1
        self._count(oid)
        if not ok:
            self.bad.append((f"{self.prop}/{oid}", detail))

    def raises(self, oid, fn, exc=TypeError):
        self.n += 1
        self._count(oid)
        try:
            r = fn()
        except exc:
            return
        except Exception as e:
            self.bad.append((f"{self.prop}/{oid}", f"raised {type(e).__name__} instead of {exc.__name__}: {e}"))
            return
        self.bad.append((f"{self.prop}/{oid}", f"no {exc.__name__} raised, returned {r!r}"))
