"""Engine A on public methods: parametric symbolic evaluation of the object backend (DESIGN 2.2).

`VectorObject.lib` is replaced, inside the checker process only, by a library of opaque term constructors; coordinates are
opaque tokens registered as `numbers.Real`.  The real constructors, properties, methods, operators, setters and
`_replace_data` of backends/object.py and _methods.py then run on vectors whose coordinates are symbols.  The code cannot
inspect a token without raising, so whatever holds for the tokens holds for every value (parametricity); results are
compared by *term identity*.
"""
from __future__ import annotations

import importlib
import itertools
import math
import numbers

import numpy


class T:
    """opaque symbolic term"""
    __slots__ = ("op", "args", "_r")

    def __init__(self, op, *a):
        self.op, self.args, self._r = op, a, None

    def __repr__(self):
        if self._r is None:
            self._r = self.op if not self.args else f"{self.op}({', '.join(map(repr, self.args))})"
        return self._r

    def __eq__(self, o):
        return T("eq", self, o)

    def __ne__(self, o):
        return T("ne", self, o)

    __hash__ = object.__hash__

    def __bool__(self):
        raise TypeError("symbolic value inspected (used as bool): " + repr(self))

    def __float__(self):
        raise TypeError("symbolic value inspected (converted to float)")

    def __neg__(self):
        return T("neg", self)

    def __pos__(self):
        return self

    def __abs__(self):
        return T("abs", self)


def _bin(n):
    def f(s, o):
        # vectors handle the operation themselves; NumPy arrays (of tokens) broadcast element-wise through their reflected operator
        return NotImplemented if (hasattr(o, "_wrap_result") or isinstance(o, numpy.ndarray)) else T(n, s, o)

    def r(s, o):
        return NotImplemented if (hasattr(o, "_wrap_result") or isinstance(o, numpy.ndarray)) else T(n, o, s)
    return f, r


for _n in "add sub mul truediv pow mod and or lt gt le ge".split():
    _f, _r = _bin(_n)
    setattr(T, f"__{_n}__", _f)
    setattr(T, f"__r{_n}__", _r)
numbers.Real.register(T)


class TLib:
    pi = T("pi")
    inf = math.inf
    nan = math.nan

    def __getattr__(self, name):
        if name.startswith("__"):
            raise AttributeError(name)
        return lambda *a, **k: T(name, *a, *[T(f"{kk}={vv!r}") for kk, vv in sorted(k.items())])


TLIB = TLib()
_installed = False


def install():
    global _installed
    if _installed:
        return
    _installed = True
    import vector.backends.object as O
    O.VectorObject.lib = TLIB


def same(a, b):
    """term identity (tuples compared element-wise); plain numbers compare by value"""
    if isinstance(a, (tuple, list)) and isinstance(b, (tuple, list)):
        return len(a) == len(b) and all(same(x, y) for x, y in zip(a, b))
    if isinstance(a, T) or isinstance(b, T):
        return repr(a) == repr(b)
    try:
        return bool(a == b)
    except Exception:
        return False


AZ = {"xy": ("x", "y"), "rhophi": ("rho", "phi")}
LO = {"z": ("z",), "theta": ("theta",), "eta": ("eta",)}
TE = {"t": ("t",), "tau": ("tau",)}
MOM = {"x": "px", "y": "py", "rho": "pt", "z": "pz", "t": "E", "tau": "mass"}


def systems(dims=(2, 3, 4)):
    for a in AZ:
        if 2 in dims:
            yield (a,)
        for l in LO:
            if 3 in dims:
                yield (a, l)
            for t in TE:
                if 4 in dims:
                    yield (a, l, t)


def names_of(sysm):
    return list(AZ[sysm[0]]) + (list(LO[sysm[1]]) if len(sysm) > 1 else []) + (list(TE[sysm[2]]) if len(sysm) > 2 else [])


def make(sysm, mom, tag):
    import vector
    kw = {(MOM.get(n, n) if mom else n): T(f"{n}{tag}") for n in names_of(sysm)}
    return vector.obj(**kw)


def sysof(v):
    s = [type(v.azimuthal).__name__.replace("AzimuthalObject", "").lower()]
    if hasattr(v, "longitudinal"):
        s.append(type(v.longitudinal).__name__.replace("LongitudinalObject", "").lower())
    if hasattr(v, "temporal"):
        s.append(type(v.temporal).__name__.replace("TemporalObject", "").lower())
    return tuple(s)


def coords(v):
    out = list(v.azimuthal.elements)
    if hasattr(v, "longitudinal"):
        out += list(v.longitudinal.elements)
    if hasattr(v, "temporal"):
        out += list(v.temporal.elements)
    return out


def is_mom(v):
    import vector
    return isinstance(v, vector.Momentum)


def classes_of(v, n):
    """coordinate classes (generic protocol classes) of the first n groups of v"""
    from vector._methods import _aztype, _ltype, _ttype
    out = [_aztype(v)]
    if n >= 2:
        out.append(_ltype(v))
    if n >= 3:
        out.append(_ttype(v))
    return out


def elements_of(v, n):
    out = list(v.azimuthal.elements)
    if n >= 2:
        out += list(v.longitudinal.elements)
    if n >= 3:
        out += list(v.temporal.elements)
    return out


PKDIM = {"planar": 1, "spatial": 2, "lorentz": 3}     # number of coordinate groups a package's kernels consume


def table_call(pk, mod, vecs, scalars=(), order=None, ns=None):
    """call the live table entry directly, in the kernel's contract order: scalars, then the operands' stored coordinates"""
    m = importlib.import_module(f"vector._compute.{pk}.{mod}")
    n = PKDIM[pk]
    key = []
    args = []
    for i, v in enumerate(vecs):
        k = ns[i] if ns else n
        key += classes_of(v, k)
        args += elements_of(v, k)
    if order is not None:
        key.append(order)
    fn, *returns = m.dispatch_map[tuple(key)]
    with numpy.errstate(all="ignore"):
        raw = fn(TLIB, *scalars, *args)
    return raw, returns


SHORT = None


def short(c):
    global SHORT
    if SHORT is None:
        from .views import SHORT as S_
        SHORT = S_
    return SHORT[c]


def expected_vector(first, momentum, raw, returns):
    """what wrapping `raw` (declared `returns`) must give according to the statement of C05: coordinate system named by the
    table entry, stored higher coordinates of the first operand passed through, flavor as given"""
    ret = list(returns)
    drop = [r is None for r in ret]
    ret_classes = [r for r in ret if r is not None]
    raw = list(raw)
    sysm = [short(c) for c in ret_classes]
    co = raw[: sum(2 if i == 0 else 1 for i in range(len(ret_classes)))]
    if not any(drop):
        # pass through the first operand's stored higher groups
        fs = sysof(first)
        fc = coords(first)
        have = len(ret_classes)
        if len(fs) > have:
            sysm += list(fs[have:])
            co += fc[(2 + (have - 1)):]
    return dict(system=tuple(sysm), coords=co, momentum=momentum)


def describe(v):
    return dict(system=sysof(v), coords=coords(v), momentum=is_mom(v))


def vec_equal(actual, exp):
    return actual["system"] == tuple(exp["system"]) and actual["momentum"] == exp["momentum"] and same(actual["coords"], exp["coords"])


def opname(oid):
    """operation an obligation id talks about: 'glue/rotate_euler[XYZ][xy,z|gen]' -> 'rotate_euler', 'operator/v+w[..' -> 'operator/v+w'"""
    parts = oid.split("[")[0].split("/")
    if parts and parts[0] in ("glue", "defined", "typeerror"):
        parts = parts[1:]
    return "/".join(parts)


class Obligations:
    def __init__(self, prop):
        self.prop = prop
        self.items = []
        self.n = 0
        self.bad = []
        self.ops = {}

    def _count(self, oid):
        k = opname(oid)
        self.ops[k] = self.ops.get(k, 0) + 1

    def check(self, oid, ok, detail=None):
        self.n += 1
        self._count(oid)
        if not ok:
            self.bad.append((f"{self.prop}/{oid}", detail))

    def raises(self, oid, fn, exc=TypeError):
        self.n += 1
        self._count(oid)
        try:
            r = fn()
        except exc:
            return
        except Exception as e:
            self.bad.append((f"{self.prop}/{oid}", f"raised {type(e).__name__} instead of {exc.__name__}: {e}"))
            return
        self.bad.append((f"{self.prop}/{oid}", f"no {exc.__name__} raised, returned {r!r}"))
