"""Engine C - frame clauses (`assigns \\nothing` on operands / on global state) by conservative effect analysis of the AST of
every function in src/vector (DESIGN 2.4).  Over-approximation: a flagged site is an undischarged frame obligation unless it
is on the allow-list below (each entry justified from the property statements); it cannot miss a write expressed in Python
source.  Writes inside NumPy/Awkward C code are covered only by the purity assumptions listed in the evidence.
"""
from __future__ import annotations

import ast
import os

MUTATORS = {"update", "append", "extend", "insert", "remove", "pop", "popitem", "clear", "setdefault", "sort", "reverse", "fill", "resize", "put", "itemset",
            "setfield", "setflags", "byteswap", "partition", "__setitem__", "__delitem__"}
# library functions that write into their first argument (numpy.put(a, ...)), or do so when called with copy=False
INPLACE_FUNCTIONS = {"put", "place", "putmask", "copyto", "fill_diagonal", "put_along_axis"}
INPLACE_WHEN_COPY_FALSE = {"nan_to_num"}
GLOBAL_DENY = {("numpy", "seterr"), ("numpy", "seterrcall"), ("numpy", "set_printoptions"), ("numpy", "setbufsize"), ("np", "seterr"), ("np", "set_printoptions"),
               ("warnings", "filterwarnings"), ("warnings", "simplefilter"), ("warnings", "resetwarnings"), ("random", "seed"), ("numpy.random", "seed"),
               ("sys", "setrecursionlimit"), ("os", "environ")}
FRESH_CALLS = {"dict", "list", "set", "tuple", "copy", "deepcopy", "empty", "zeros", "ones", "array", "asarray_copy", "zip", "Array", "Record", "from_iter", "empty_like",
               "zeros_like", "full", "ndarray", "view", "fields", "sorted", "bind", "partial"}


def dotted(node):
    if isinstance(node, ast.Name):
        return node.id
    if isinstance(node, ast.Attribute):
        b = dotted(node.value)
        return None if b is None else b + "." + node.attr
    return None


def base_name(node):
    while isinstance(node, (ast.Attribute, ast.Subscript, ast.Call, ast.Starred)):
        node = node.value if not isinstance(node, ast.Call) else node.func
    return node.id if isinstance(node, ast.Name) else None


class FunctionEffects(ast.NodeVisitor):
    def __init__(self, fn, qualname, path, module_mutables=()):
        self.fn, self.qualname, self.path = fn, qualname, path
        self.module_mutables = set(module_mutables)     # module-level names bound to list / dict / set objects
        self.modalias = {}                               # local name -> module-level mutable object it is another name for
        a = fn.args
        self.params = {x.arg for x in a.args + a.kwonlyargs + a.posonlyargs} | ({a.vararg.arg} if a.vararg else set()) | ({a.kwarg.arg} if a.kwarg else set())
        self.param_order = [x.arg for x in a.posonlyargs + a.args]
        self.kwarg_name = a.kwarg.arg if a.kwarg else None
        self.calls = []            # (callee simple name, [positional arg is the caller's own fresh container?], {keyword: own?})
        self.fresh = set()         # local names / dotted paths bound to freshly allocated objects in this function
        self.shallow = set()       # names bound to objects *constructed from* operands: new object, but sub-objects may be shared
        self.alias = {}            # local name -> parameter it may alias
        self.sites = []
        self.errstate_ok = True

    def flag(self, node, kind, text, root=None):
        if root is not None:
            root = self.alias.get(root, root)
        self.sites.append(dict(kind=kind, where=f"{self.path}:{node.lineno}", function=self.qualname, text=text, root=root, params=list(self.param_order)))

    def _own(self, e):
        """is this argument expression a container the *calling* function created itself (its **kwargs dict, a fresh local, a literal)?"""
        if isinstance(e, ast.Name):
            return e.id == self.kwarg_name or (e.id in self.fresh and e.id not in self.alias)
        return self.is_fresh_expr(e)

    def is_fresh_expr(self, v):
        if isinstance(v, (ast.Dict, ast.List, ast.Set, ast.Tuple, ast.ListComp, ast.DictComp, ast.SetComp, ast.Constant, ast.JoinedStr, ast.BinOp, ast.Compare, ast.BoolOp, ast.UnaryOp)):
            return True
        if isinstance(v, ast.Call):
            f = v.func
            name = f.attr if isinstance(f, ast.Attribute) else (f.id if isinstance(f, ast.Name) else None)
            if name in FRESH_CALLS or (name and name[:1].isupper()):
                return True
            if name in MUTATORS or self.param_reach(f):
                return False
            # a helper applied to (parts of) the operands may hand them back: the result aliases the operands
            return not any(self.param_reach(a) or base_name(a) in self.shallow for a in list(v.args) + [k.value for k in v.keywords])
        return False

    def param_reach(self, node):
        """does the expression denote (part of) an object reachable from a parameter?"""
        b = base_name(node)
        if b is None:
            return False
        d = dotted(node)
        if d is not None and any(d == f or d.startswith(f + ".") for f in self.fresh):
            return False
        if b in self.shallow:
            return not isinstance(node, ast.Name)       # the new object itself is ours; what hangs off it may be shared with the operands
        if b in self.fresh:
            return False
        return b in self.params or b in self.alias

    def visit_FunctionDef(self, node):
        if node is not self.fn:
            return          # nested functions are analysed on their own
        self.generic_visit(node)

    visit_AsyncFunctionDef = visit_FunctionDef

    def visit_Lambda(self, node):
        self.generic_visit(node)

    def visit_Global(self, node):
        self.flag(node, "global-statement", "global " + ", ".join(node.names))

    def visit_Nonlocal(self, node):
        self.flag(node, "nonlocal-statement", "nonlocal " + ", ".join(node.names))

    def visit_Assign(self, node):
        for t in node.targets:
            self.target(t, node.value, node)
        self.visit(node.value)

    def visit_AnnAssign(self, node):
        if node.value is not None:
            self.target(node.target, node.value, node)
            self.visit(node.value)

    def _module_object(self, value):
        """the module-level mutable object an expression denotes, if any (a bare name, not shadowed by a local / parameter)"""
        if isinstance(value, ast.Name):
            if value.id in self.modalias:
                return self.modalias[value.id]
            if value.id in self.module_mutables and value.id not in self.params and not _is_local(self.fn, value.id):
                return value.id
        return None

    def target(self, t, value, node):
        if isinstance(t, ast.Name):
            mo = self._module_object(value) if value is not None else None
            if mo is not None:
                self.modalias[t.id] = mo
            else:
                self.modalias.pop(t.id, None)
        elif isinstance(t, (ast.Attribute, ast.Subscript)) and isinstance(base := t.value, ast.Name) and base.id in self.modalias:
            self.flag(node, "store-to-module-state", ast.unparse(t) + f" = ...   ({base.id} is the module-level {self.modalias[base.id]})")
        if isinstance(value, ast.IfExp):
            # either branch may be taken: analyse the operand-reaching one last so that aliasing wins over freshness
            branches = sorted([value.body, value.orelse], key=lambda b: 0 if self.is_fresh_expr(b) else 1)
            for b in branches:
                self.target(t, b, node)
            return
        if isinstance(t, ast.Name):
            self.shallow.discard(t.id)
            if self.is_fresh_expr(value):
                self.fresh.add(t.id)
                self.alias.pop(t.id, None)
                if isinstance(value, ast.Call) and any(self.param_reach(a) or base_name(a) in self.shallow for a in list(value.args) + [k.value for k in value.keywords]
                                                       if not isinstance(a, ast.Constant)):
                    f_ = value.func
                    nm = f_.attr if isinstance(f_, ast.Attribute) else (f_.id if isinstance(f_, ast.Name) else "")
                    if nm not in ("dict", "list", "set", "tuple", "copy", "deepcopy", "sorted", "len", "str", "repr", "fields"):
                        self.shallow.add(t.id)
                        self.fresh.discard(t.id)
            else:
                self.fresh.discard(t.id)
                b = base_name(value) if value is not None else None
                if isinstance(value, ast.Call) and not (b in self.params or b in self.alias):
                    b = next((base_name(a) for a in list(value.args) + [k.value for k in value.keywords] if self.param_reach(a)), b)
                if b in self.params or b in self.alias:
                    self.alias[t.id] = b
            if t.id in self.params:
                self.params.discard(t.id)          # rebinding a parameter name does not write the argument
                if self.is_fresh_expr(value):
                    self.fresh.add(t.id)
                else:
                    b = base_name(value)
                    if b in self.params or b in self.alias or b == t.id:
                        self.alias[t.id] = t.id
        elif isinstance(t, (ast.Tuple, ast.List)) and isinstance(value, (ast.Tuple, ast.List)) and len(value.elts) == len(t.elts) \
                and not any(isinstance(x, ast.Starred) for x in list(t.elts) + list(value.elts)):
            # a, b = x, y  binds pairwise
            for te, ve in zip(t.elts, value.elts):
                self.target(te, ve, node)
        elif isinstance(t, (ast.Tuple, ast.List)):
            for e in t.elts:
                if isinstance(e, ast.Name) and value is not None and not self.is_fresh_expr(value):
                    b = base_name(value) if not isinstance(value, ast.Call) else next((base_name(a) for a in value.args if self.param_reach(a) or base_name(a) in self.shallow), None)
                    self.fresh.discard(e.id)
                    if b is not None:
                        if b in self.shallow:
                            self.shallow.add(e.id)
                        else:
                            self.alias[e.id] = b
                elif isinstance(e, ast.Name):
                    self.fresh.add(e.id)
                else:
                    self.target(e, None, node)
        elif isinstance(t, (ast.Attribute, ast.Subscript)):
            d = dotted(t)
            if self.param_reach(t.value):
                self.flag(node, "store-through-parameter", ast.unparse(t) + " = ...", root=base_name(t))
            elif base_name(t) is not None and base_name(t) not in self.fresh and base_name(t) not in self.params and base_name(t) not in self.alias and not _is_local(self.fn, base_name(t)):
                self.flag(node, "store-to-module-state", ast.unparse(t) + " = ...")
            if d is not None and value is not None and self.is_fresh_expr(value):
                self.fresh.add(d)

    def visit_AugAssign(self, node):
        t = node.target
        if isinstance(t, ast.Name):
            if t.id in self.modalias:
                self.flag(node, "augmented-assignment-on-module-state", ast.unparse(node) + f"   ({t.id} is the module-level {self.modalias[t.id]})")
            if t.id in self.params or t.id in self.alias:
                self.flag(node, "augmented-assignment-on-operand", ast.unparse(node))
        else:
            if self.param_reach(t.value) or base_name(t) in self.params:
                self.flag(node, "augmented-assignment-through-parameter", ast.unparse(node))
        self.visit(node.value)

    def visit_Delete(self, node):
        for t in node.targets:
            if isinstance(t, (ast.Attribute, ast.Subscript)) and self.param_reach(t.value):
                self.flag(node, "delete-through-parameter", ast.unparse(node))

    def visit_For(self, node):
        # the loop variable aliases the elements of what is iterated over
        it = node.iter
        src = base_name(it) if not isinstance(it, ast.Call) else next((base_name(a) for a in it.args if self.param_reach(a)), None)
        if isinstance(it, ast.Call) and isinstance(it.func, ast.Attribute) and self.param_reach(it.func.value):
            src = base_name(it.func.value)
        if src is None and base_name(it) in self.shallow:
            src = base_name(it)
        for e in ([node.target] if isinstance(node.target, ast.Name) else [x for x in ast.walk(node.target) if isinstance(x, ast.Name)]):
            if src is not None and src in self.shallow:
                self.shallow.add(e.id)
                self.fresh.discard(e.id)
            elif src is not None and (src in self.params or src in self.alias) and src not in self.fresh:
                self.alias[e.id] = src
                self.fresh.discard(e.id)
        self.visit(it)
        for st in node.body + node.orelse:
            self.visit(st)

    def visit_With(self, node):
        for item in node.items:
            self._with_ctx = True
            self.visit(item.context_expr)
            self._with_ctx = False
        for st in node.body:
            self.visit(st)

    def visit_Call(self, node):
        f = node.func
        d = dotted(f)
        cname = f.id if isinstance(f, ast.Name) else (f.attr if isinstance(f, ast.Attribute) else None)
        if cname:
            self.calls.append((cname, [self._own(a) for a in node.args if not isinstance(a, ast.Starred)] if not any(isinstance(a, ast.Starred) for a in node.args) else None,
                               {k.arg: self._own(k.value) for k in node.keywords if k.arg}))
        if isinstance(f, ast.Attribute) and f.attr in MUTATORS and isinstance(f.value, ast.Name) and f.value.id in self.modalias:
            self.flag(node, "mutator-call-on-module-state", ast.unparse(node)[:100] + f"   ({f.value.id} is the module-level {self.modalias[f.value.id]})")
        if isinstance(f, ast.Attribute):
            if f.attr in MUTATORS and self.param_reach(f.value):
                self.flag(node, "mutator-call-on-operand", ast.unparse(node)[:120], root=base_name(f.value))
            elif f.attr in MUTATORS and base_name(f.value) is not None and not _is_local(self.fn, base_name(f.value)) and base_name(f.value) not in self.params:
                b = dotted(f.value) or ""
                if not any(b == x or b.startswith(x + ".") for x in self.fresh):
                    self.flag(node, "mutator-call-on-module-state", ast.unparse(node)[:120])
            if d is not None:
                parts = d.rsplit(".", 1)
                if (parts[0], parts[1]) in GLOBAL_DENY or (parts[0].split(".")[-1], parts[1]) in GLOBAL_DENY:
                    self.flag(node, "global-state-mutator", ast.unparse(node)[:120])
                if parts[1] == "errstate" and not getattr(self, "_with_ctx", False):
                    self.flag(node, "errstate-outside-with", ast.unparse(node)[:120])
        for kw in node.keywords:
            if kw.arg == "out" and not (isinstance(kw.value, ast.Constant) and kw.value.value is None):
                self.flag(node, "out-keyword", ast.unparse(node)[:120])
            if kw.arg == "copy" and isinstance(kw.value, ast.Constant) and kw.value.value is False and d is not None and d.rsplit(".", 1)[-1] in INPLACE_WHEN_COPY_FALSE \
                    and any(self.param_reach(a) for a in node.args):
                self.flag(node, "mutator-call-on-operand", ast.unparse(node)[:120])
        if d is not None and "." in d and d.rsplit(".", 1)[-1] in INPLACE_FUNCTIONS and d.split(".")[0] in ("numpy", "np") and node.args and self.param_reach(node.args[0]):
            self.flag(node, "mutator-call-on-operand", ast.unparse(node)[:120])
        self.generic_visit(node)


def _is_local(fn, name):
    for n in ast.walk(fn):
        if isinstance(n, ast.Name) and n.id == name and isinstance(n.ctx, ast.Store):
            return True
        if isinstance(n, ast.arg) and n.arg == name:
            return True
        if isinstance(n, (ast.For, ast.comprehension)):
            pass
    return False


CALLS = {}      # callee simple name -> recorded calls (filled by analyse_tree)
CLASSES = {}    # class name -> dict(bases=[...], module_level_instance=bool, cached_factory=bool, instantiated_in_functions=int)   (filled by analyse_tree)
OPERAND_BASE_WORDS = ("Vector", "Momentum", "Azimuthal", "Longitudinal", "Temporal", "Coordinates", "Planar", "Spatial", "Lorentz", "ndarray", "Array", "Record", "NamedTuple", "tuple")


def per_call_helper_object(site):
    """a write through `self` is call-local when the class is a private helper (not a vector / coordinate / array class) whose instances are only ever
    created inside functions - never at module level and never by a caching factory - so that each call works on its own fresh instance"""
    parts = site["function"].split(".")
    if len(parts) < 2 or site.get("root") != "self":
        return None
    cls = parts[-2]
    info = CLASSES.get(cls)
    if info is None or not cls.startswith("_") or cls.startswith("__"):
        return None
    if any(w in b for b in info["bases"] for w in OPERAND_BASE_WORDS):
        return None
    if info["module_level_instance"] or info["cached_factory"] or info["instantiated_in_functions"] == 0:
        return None
    return f"state of a per-call helper object: private class {cls} is instantiated only inside functions ({info['instantiated_in_functions']} sites), never at module level or by a caching factory"


def consumes_callers_own_container(site):
    """a private helper that writes through parameter P is harmless when every call site in the tree passes, for P, a container the caller created
    itself (its **kwargs dict, a fresh local, a literal): the write never reaches an object that existed before the public call"""
    fn = site["function"].split(".")[-1]
    root = site.get("root")
    if not fn.startswith("_") or fn.startswith("__") or root is None or root not in site.get("params", []):
        return None
    idx = site["params"].index(root)
    calls = CALLS.get(fn, [])
    if not calls:
        return None
    for name, pos, kws in calls:
        if root in kws:
            ok = kws[root]
        elif pos is not None and idx < len(pos):
            ok = pos[idx]
        else:
            ok = False
        if not ok:
            return None
    return f"private helper; all {len(calls)} call sites pass a container created by the caller itself for `{root}`"


def analyse_tree(src_root):
    """all flagged sites in src/vector, plus the census of functions analysed"""
    CALLS.clear()
    CLASSES.clear()
    sites, nfun, nfiles = [], 0, 0
    for dp, dn, fns in os.walk(src_root):
        for fn in sorted(fns):
            if not fn.endswith(".py") or fn.startswith("_version"):
                continue
            path = os.path.join(dp, fn)
            rel = os.path.relpath(path, os.path.dirname(src_root))
            tree = ast.parse(open(path).read())
            nfiles += 1
            for cd in ast.walk(tree):
                if isinstance(cd, ast.ClassDef):
                    CLASSES.setdefault(cd.name, dict(bases=[ast.unparse(b) for b in cd.bases], module_level_instance=False, cached_factory=False, instantiated_in_functions=0))
            mutables = set()
            for st in tree.body:
                if isinstance(st, (ast.Assign, ast.AnnAssign)) and st.value is not None:
                    v = st.value
                    is_mut = isinstance(v, (ast.List, ast.Dict, ast.Set, ast.ListComp, ast.DictComp, ast.SetComp)) or \
                        (isinstance(v, ast.Call) and isinstance(v.func, ast.Name) and v.func.id in ("list", "dict", "set", "defaultdict", "OrderedDict", "bytearray"))
                    if is_mut:
                        for tg in (st.targets if isinstance(st, ast.Assign) else [st.target]):
                            if isinstance(tg, ast.Name):
                                mutables.add(tg.id)
            stack = [(tree, "")]
            while stack:
                node, prefix = stack.pop()
                for ch in ast.iter_child_nodes(node):
                    if isinstance(ch, (ast.FunctionDef, ast.AsyncFunctionDef)):
                        q = prefix + ch.name
                        fe = FunctionEffects(ch, q, rel, mutables)
                        fe.visit(ch)
                        sites += fe.sites
                        for c in fe.calls:
                            CALLS.setdefault(c[0], []).append(c)
                        nfun += 1
                        stack.append((ch, q + "."))
                    elif isinstance(ch, ast.ClassDef):
                        stack.append((ch, prefix + ch.name + "."))
                    elif isinstance(ch, (ast.If, ast.Try, ast.With, ast.For, ast.While)):
                        stack.append((ch, prefix))
    # where are the classes instantiated?
    for dp, dn, fns in os.walk(src_root):
        for fn in sorted(fns):
            if not fn.endswith(".py") or fn.startswith("_version"):
                continue
            tree = ast.parse(open(os.path.join(dp, fn)).read())
            for st in tree.body:
                for node in ([st.value] if isinstance(st, (ast.Assign, ast.AnnAssign, ast.Expr)) and getattr(st, "value", None) is not None else []):
                    for c in ast.walk(node):
                        if isinstance(c, ast.Call) and isinstance(c.func, ast.Name) and c.func.id in CLASSES:
                            CLASSES[c.func.id]["module_level_instance"] = True
            for f in ast.walk(tree):
                if isinstance(f, (ast.FunctionDef, ast.AsyncFunctionDef, ast.Lambda)):
                    cached = isinstance(f, ast.FunctionDef) and any(("cache" in ast.unparse(d)) for d in f.decorator_list)
                    for c in ast.walk(f):
                        if isinstance(c, ast.Call) and isinstance(c.func, ast.Name) and c.func.id in CLASSES:
                            CLASSES[c.func.id]["instantiated_in_functions"] += 1
                            if cached:
                                CLASSES[c.func.id]["cached_factory"] = True
    return sites, nfun, nfiles
