"""Engine A driver: contracts on the real compute functions, obligations, refuter, replay.

A *variant job* takes one key of one live `dispatch_map`, executes the real function object symbolically and
discharges:   (C01 form)  decode(F_sig(stored))  ==  F_cartesian(view(stored))
plus every definedness obligation met on the way.  Callees that have their own contract are replaced by their
contract (modular mode) unless VERIF_INLINE=1.
"""
from __future__ import annotations

import itertools
import os
import random
import time
import traceback
from fractions import Fraction as Fr

from . import symreal as S
from . import prover as PR
from . import ops as OPS
from . import numlib as NL
from .symreal import A, Ang, Lg, B, PiMul, LIB, OutOfSubset, f_and, f_rel, f_iff, f_eval, f_str, TRUE, FALSE, EnvGet
from .views import (AZ, LO, TE, SHORT, AzimuthalXY, AzimuthalRhoPhi, LongitudinalZ, LongitudinalTheta,
                    LongitudinalEta, TemporalT, TemporalTau, groups, ncoords, cart_of, is_cart, sig_str,
                    mk_operand, mk_scalar, view, sample_inputs, stored_from_env, num_view)

SEED = int(os.environ.get("VERIF_SEED", "0") or 0)
NPOINTS = int(os.environ.get("VERIF_REFUTER_POINTS", "4"))


def mp():
    import mpmath
    return mpmath


# contracts whose kernels are applied to *named* view components (fresh variables with defining hypotheses) instead of
# compound fractions: keeps the boost matrices small (DESIGN 2.1, kernel contracts at parameter level)
ABSTRACT_VIEW_OPS = {"boost_beta3", "boost_p4"}
# operations whose contract is split by the sign of a stored time coordinate (so that a failure for negative time is a
# separately named obligation)
T_SIGN_SPLIT_OPS = {"Et", "to_beta3"}


# ------------------------------------------------------------------------------------------- obligations
class Obl:
    def __init__(self, oid, kind, formula=None, status=None, by=None, t=0.0, note=None, model=None, splits=()):
        self.oid, self.kind, self.formula = oid, kind, formula
        self.status, self.by, self.t, self.note, self.model = status, by, t, note, model
        self.splits = splits

    def asdict(self):
        d = dict(id=self.oid, kind=self.kind, status=self.status, by=self.by, t=round(self.t, 4))
        if self.note:
            d["note"] = self.note
        return d


def value_goals(got, ref, label="value"):
    """equality of two scalar results as a list of (name, formula) proved in order (lemma chaining)"""
    if isinstance(got, (B,)) or isinstance(ref, (B,)) or isinstance(got, bool) or isinstance(ref, bool):
        g = got.f if isinstance(got, B) else ("const", bool(got))
        r = ref.f if isinstance(ref, B) else ("const", bool(ref))
        if g == r:
            return [(label + ".iff", TRUE)]
        # an equivalence between conjunctions is posed conjunct by conjunct in both directions (smaller queries)
        gc = g[1] if g[0] == "and" else (g,)
        rc = r[1] if r[0] == "and" else (r,)
        if len(gc) > 1 or len(rc) > 1:
            goals = []
            for i, c in enumerate(rc):
                goals.append((f"{label}.fwd{i + 1}", S.f_imp(g, c)))
            for i, c in enumerate(gc):
                goals.append((f"{label}.bwd{i + 1}", S.f_imp(r, c)))
            return goals
        return [(label + ".iff", f_iff(g, r))]
    if isinstance(got, PiMul):
        got = got.ang()
    if isinstance(ref, PiMul):
        ref = ref.ang()
    if isinstance(got, Ang) and isinstance(ref, Ang):
        goals = [(label + ".cos", got.c.rel("==", ref.c)), (label + ".sin", got.s.rel("==", ref.s))]
        wg, wr = got.win(), ref.win()
        ok = wg is not None and wr is not None and (max(wg[1], wr[1]) - min(wg[0], wr[0]) <= 2)
        goals.append((label + ".window", TRUE if ok else FALSE))
        return goals
    if isinstance(got, Lg) and isinstance(ref, Lg):
        return [(label + ".log", got.eq_formula(ref))]
    return [(label, A.of(got).rel("==", A.of(ref)))]


def numeric_equal(a, b, tol=None):
    m = mp()
    tol = tol or m.mpf(10) ** (-35)
    if isinstance(a, (bool,)) or isinstance(b, (bool,)):
        return bool(a) == bool(b)
    a, b = m.mpf(a), m.mpf(b)
    if m.isnan(a) or m.isnan(b):
        return False
    return abs(a - b) <= tol * max(1, abs(a), abs(b))


# ------------------------------------------------------------------------------------------- job
class VariantJob:
    def __init__(self, pk, modname, sig, prop="C01"):
        self.pk, self.modname, self.sig, self.prop = pk, modname, tuple(sig), prop
        self.mod = dict(((p, n), m) for p, n, m in OPS.all_modules())[(pk, modname)]
        self.fn, *self.returns = self.mod.dispatch_map[self.sig]
        self.csig = cart_of(self.sig)
        self.cfn, *self.creturns = self.mod.dispatch_map[self.csig]
        self.vs = groups(self.sig)
        self.nc = sum(ncoords(v) for v in self.vs)
        self.snames = OPS.scalar_params(modname, self.cfn, self.nc)
        self.base_id = f"{prop}/{pk}.{modname}[{sig_str(self.sig)}]"
        self.spec = None
        if prop == "C02":
            from . import specs
            order = [c for c in self.sig if isinstance(c, str)]
            self.spec = specs.SPECS.get((pk, modname) + tuple(order))

    # ---- one case
    def setup_case(self, case_name, kinds, tau_cases):
        ctx = S.newctx()
        ctx.abstract_views = self.modname in ABSTRACT_VIEW_OPS
        scal = {}
        sargs = []
        for n in self.snames:
            k = kinds[n]
            if isinstance(k, tuple) and k[0] == "const":
                v = k[1]
            elif k == "angle":
                v = mk_scalar(n, "angle")
            else:
                v = mk_scalar(n, k)
            scal[n] = v
            sargs.append(v)
        coords = []
        ti = 0
        for i, v in enumerate(self.vs):
            tc, tt = "nonneg", None
            if len(v) >= 3 and v[2] is TemporalTau:
                tc = tau_cases[ti]; ti += 1
            elif len(v) >= 3 and v[2] is TemporalT and self.modname in T_SIGN_SPLIT_OPS:
                tt = tau_cases[ti]; ti += 1
            coords.append(mk_operand(str(i + 1), v, tau_case=tc, t_case=tt))
        views = [view(v, c) for v, c in zip(self.vs, coords)]
        for f in OPS.op_requires(self.pk, self.modname, case_name, scal, views, self.prop):
            ctx.hyp(f, pre=True)
        return ctx, scal, sargs, coords, views

    def cases(self):
        sc = OPS.scalar_cases(self.pk, self.modname, self.snames, self.prop)
        split_t = self.modname in T_SIGN_SPLIT_OPS
        temps = [v[2] for v in self.vs if len(v) >= 3 and (v[2] is TemporalTau or split_t)]
        tcs = list(itertools.product(("nonneg", "neg"), repeat=len(temps)))
        if split_t and self.prop not in ("C01", "C02"):
            # properties other than C01/C02 only quantify over forward (t >= 0) vectors for these operations
            tcs = [tc for tc in tcs if all(c == "nonneg" for k, c in zip(temps, tc) if k is TemporalT)]
        for cname, kinds in sc:
            for tc in tcs:
                label = cname
                if temps:
                    label = (label + ";" if label else "") + ",".join(("tau:" if k is TemporalTau else "t:") + c for k, c in zip(temps, tc))
                yield label, cname, kinds, tc

    def run(self):
        res = dict(id=self.base_id, pk=self.pk, mod=self.modname, sig=sig_str(self.sig), obligations=[], status=None,
                   t=0.0, cases=0, refuter_points=0, engine_crosschecks=0)
        t0 = time.time()
        if self.csig == self.sig and self.prop == "C01":
            res["status"] = "reference"
            return res
        if self.prop == "C02" and self.spec is None:
            res["status"] = "error"
            res["err"] = "no spec function for this operation"
            return res
        worst = "proved"
        try:
            for label, cname, kinds, tc in self.cases():
                res["cases"] += 1
                st = self.run_case(label, cname, kinds, tc, res)
                worst = _worse(worst, st)
        except OutOfSubset as e:
            res["obligations"].append(dict(id=self.base_id + "/subset", kind="subset", status="unknown", by="engine",
                                           t=0, note=f"left the verifiable subset: {e}"))
            worst = _worse(worst, "unknown")
        if res["cases"] and len(res.get("vacuous_cases", [])) == res["cases"]:
            res["obligations"].append(dict(id=self.base_id + "/vacuity", kind="vacuity", status="error", by="z3", t=0,
                                           note="every case of the contract has an unsatisfiable precondition"))
            worst = "error"
        res["status"] = worst
        res["t"] = round(time.time() - t0, 3)
        res["stats"] = dict(PR.STATS)
        return res

    def run_case(self, label, cname, kinds, tc, res):
        ctx, scal, sargs, coords, views = self.setup_case(cname, kinds, tc)
        rng = random.Random(hash((SEED, self.base_id, label)) & 0xFFFFFFFF)
        if not self.sample_points(ctx, rng, 1, tries=60):
            st, _ = PR.satisfiable(ctx, list(ctx.pre), 10000)
            if st == "unsat":
                # this sign case admits no operand in the operation's domain (e.g. a spacelike booster)
                res.setdefault("vacuous_cases", []).append(label)
                return "proved"
        flat_views = [c for vw in views for c in vw]
        flat_coords = [c for cs in coords for c in cs]
        scalar_result = self.returns in ([float], [bool])
        try:
            return self._run_case_symbolic(label, ctx, scal, sargs, views, flat_views, flat_coords, scalar_result, res)
        except OutOfSubset as e:
            # the function cannot be executed symbolically: its contract is undecided - unless the numeric refuter (the real function
            # against the reference at seeded points of the case's precondition, results representable) exhibits a failing input
            suffix = f"{{{label}}}" if label else ""
            rng = random.Random(hash((SEED, self.base_id, label)) & 0xFFFFFFFF)
            envs = self.sample_points(ctx, rng, max(NPOINTS, 16))
            turns = [(e_, (1, -2)) for e_ in envs[:4]] if (self.prop in ("C01", "C02") and self.modname != "phi" and any(v[0] is AzimuthalRhoPhi for v in self.vs)) else []
            for env, pt in [(e_, None) for e_ in envs] + turns:
                res["refuter_points"] += 1
                bad = self.refute_at(ctx, env, None, None, scalar_result, None, need_representable=True, phi_turns=pt)
                if bad is not None:
                    bad["note"] = f"symbolic execution left the verifiable subset ({e}); found by the numeric refuter"
                    res["obligations"].append(dict(id=f"{self.base_id}{suffix}/refuter", kind="refuter", status="refuted",
                                                   by="numeric evaluation of the real function (mpmath 60 digits)", t=0, counterexample=bad))
                    return "refuted"
            raise

    def _run_case_symbolic(self, label, ctx, scal, sargs, views, flat_views, flat_coords, scalar_result, res):
        with S.time_budget():
            ref, got, oc, refv = self._execute(ctx, scal, sargs, views, flat_views, flat_coords, scalar_result)
        return self._decide(label, ctx, scal, sargs, views, flat_views, flat_coords, scalar_result, res, ref, got, oc, refv)

    def _execute(self, ctx, scal, sargs, views, flat_views, flat_coords, scalar_result):
        oc = refv = None
        if self.spec is not None:
            ref = self.spec(LIB, scal, views)
            if not scalar_result:
                oc = [r for r in self.returns if r is not None]
                refv = [A.of(c) for c in ref]
                for f in OPS.result_rep(oc, refv):
                    ctx.hyp(f, pre=True)
        else:
            ref = self.cfn(LIB, *sargs, *flat_views)
            if not scalar_result:
                oc = [r for r in self.returns if r is not None]
                rc = [r for r in self.creturns if r is not None]
                ref_t = ref if isinstance(ref, tuple) else (ref,)
                refv = view(rc, list(ref_t))
                for f in OPS.result_rep(oc, refv):
                    ctx.hyp(f, pre=True)
        got = self.fn(LIB, *sargs, *flat_coords)
        return ref, got, oc, refv

    def _decide(self, label, ctx, scal, sargs, views, flat_views, flat_coords, scalar_result, res, ref, got, oc, refv):
        goals = []
        if scalar_result:
            goals += value_goals(got, ref)
        else:
            got_t = got if isinstance(got, tuple) else (got,)
            if len(got_t) != sum(ncoords([c]) for c in oc):
                goals.append(("arity", FALSE))
            else:
                tau_out = len(oc) >= 3 and oc[2] is TemporalTau
                gv = view(oc[:2] if tau_out else oc, list(got_t)[:3] if tau_out else list(got_t))
                for nm, a, b in zip("xyz" if tau_out else "xyzt", gv, refv):
                    goals.append((f"view.{nm}", A.of(a).rel("==", A.of(b))))
                if tau_out:
                    # t-view(result) = sqrt(max(Q,0)), Q = sgn(tau')tau'^2 + |p'|^2.  The exact time T_ref is > 0 (precondition
                    # "result representable"), so t-view(result) == T_ref  iff  Q == T_ref^2.
                    from .views import vkey
                    cache = getattr(ctx, "viewcache", {}) or {}
                    tp = A.of(got_t[3])
                    k4 = ("te", vkey(gv[0]), vkey(gv[1]), vkey(gv[2]), vkey(tp))
                    if k4 in cache:
                        goals.append(("view.t", A.of(cache[k4]).rel("==", A.of(refv[3]))))
                    else:
                        Q = LIB.copysign(tp * tp, tp) + (gv[0] * gv[0] + gv[1] * gv[1] + gv[2] * gv[2])
                        goals.append(("view.t", Q.rel("==", A.of(refv[3]) * A.of(refv[3]))))
        suffix = f"{{{label}}}" if label else ""
        worst = "proved"
        # ---- sample points: vacuity witness, refuter, engine cross-check
        rng = random.Random(hash((SEED, self.base_id, label)) & 0xFFFFFFFF)
        pts = self.sample_points(ctx, rng, NPOINTS)
        if not pts:
            st, _ = PR.satisfiable(ctx, list(ctx.pre), 10000)
            if st == "unsat":
                # this sign case admits no representable operand/result at all (e.g. negative factor with tau output)
                res.setdefault("vacuous_cases", []).append(label)
                return "proved"
            res.setdefault("unsampled_cases", []).append(label)
        for env in pts:
            res["refuter_points"] += 1
            bad = self.refute_at(ctx, env, got, ref, scalar_result, res)
            if bad is not None:
                res["obligations"].append(dict(id=f"{self.base_id}{suffix}/refuter", kind="refuter", status="refuted",
                                               by="numeric evaluation of the real function (mpmath 60 digits)", t=0,
                                               counterexample=bad))
                return "refuted"
        # ---- periodicity stratum (BOUNDED): the same points with whole turns added to the stored azimuths - the definitions hold for every finite stored phi
        if self.prop in ("C01", "C02") and self.modname != "phi" and any(v[0] is AzimuthalRhoPhi for v in self.vs):
            for env in pts[:2]:
                res["refuter_points"] += 1
                bad = self.refute_at(ctx, env, got, ref, scalar_result, None, phi_turns=(1, -2))
                if bad is not None:
                    bad["note"] = "stored azimuths shifted by whole turns (+1, -2): outside the principal range, same vectors"
                    res["obligations"].append(dict(id=f"{self.base_id}{suffix}/refuter", kind="refuter", status="refuted",
                                                   by="numeric evaluation of the real function (mpmath 60 digits)", t=0, counterexample=bad))
                    return "refuted"
        # ---- definedness obligations
        seen = set()
        for i, (desc, f) in enumerate(ctx.defs):
            k = repr(f)
            if k in seen:
                continue
            seen.add(k)
            r = PR.prove(ctx, f)
            o = dict(id=f"{self.base_id}{suffix}/defined.{len(seen)}", kind="definedness", status=r["status"], by=r["by"],
                     t=round(r["t"], 4), note=desc)
            if r["status"] == "refuted":
                o["counterexample"] = self.model_inputs(ctx, r.get("model"))
            res["obligations"].append(o)
            worst = _worse(worst, r["status"])
        # ---- congruence on opaque atoms (angle/log values used as numbers): equal arguments => equal values
        ncong = congruence(ctx)
        if ncong:
            res["congruence_merges"] = res.get("congruence_merges", 0) + ncong
        # ---- value obligations, chained
        lemmas = []
        for nm, g in goals:
            r = PR.radical_tactic(ctx, g, extra=lemmas, timeout_ms=3000)
            if r is None:
                r = PR.prove(ctx, g, extra=lemmas)
            o = dict(id=f"{self.base_id}{suffix}/{nm}", kind="value", status=r["status"], by=r["by"], t=round(r["t"], 4))
            if r["status"] == "refuted":
                cx = self.validate_model(ctx, r.get("model"), got, ref, scalar_result)
                if cx is None:
                    o["status"] = "unknown"; o["note"] = "solver model did not replay on the real function (spurious)"
                else:
                    o["counterexample"] = cx
            if o["status"] == "proved":
                lemmas.append(g)
            res["obligations"].append(o)
            worst = _worse(worst, o["status"])
        return worst

    # ---- numeric side
    def sample_points(self, ctx, rng, n, tries=400):
        out = []
        strata = []
        maxtries, tries = tries, 0
        while len(out) < n and tries < maxtries:
            tries += 1
            base = sample_inputs(ctx, rng)
            self.fixup(ctx, base, rng, tries)
            env = EnvGet(ctx, base)
            try:
                if all(f_eval(f, env) for f in ctx.pre):
                    out.append(env)
                    if len(out) == 1:
                        # strata a random draw never hits: the same point with a stored azimuth of exactly 0 (and exactly pi/2), one polar operand at a time
                        for d in ctx.inputs:
                            if "scalar" in d or "phi" not in d.get("vars", {}):
                                continue
                            for cs in ((1, 0), (0, 1)):
                                b2 = dict(base)
                                b2[d["vars"]["phi"][0]], b2[d["vars"]["phi"][1]] = mp().mpf(cs[0]), mp().mpf(cs[1])
                                e2 = EnvGet(ctx, b2)
                                try:
                                    if all(f_eval(f, e2) for f in ctx.pre):
                                        strata.append(e2)
                                except (ZeroDivisionError, KeyError, ValueError):
                                    pass
            except (ZeroDivisionError, KeyError, ValueError):
                continue
        return out + strata

    def fixup(self, ctx, base, rng, tries):
        """steer random draws into narrow preconditions (|beta|<1, timelike booster, t>|z| ...)"""
        m = mp()
        shrink = m.mpf(rng.choice([1, 0.5, 0.2, 0.05]))
        grow = m.mpf(rng.choice([1, 3, 10, 40]))
        mod = self.modname
        if mod == "rotate_quaternion" and self.prop in ("C02", "C10"):
            q = [d for d in ctx.inputs if "scalar" in d and d["scalar"] in ("u", "i", "j", "k")]
            n = m.sqrt(sum(base[d["vars"]] ** 2 for d in q))
            if n > 0:
                for d in q:
                    base[d["vars"]] = base[d["vars"]] / n
        for d in ctx.inputs:
            if "scalar" in d:
                if d["scalar"] == "beta":
                    base[d["vars"]] = m.mpf(rng.uniform(-0.999, 0.999))
                if d["scalar"] == "gamma":
                    g = 1 + abs(m.mpf(rng.gauss(0, 1.5)))
                    base[d["vars"]] = g if rng.random() < 0.5 else -g
                continue
            vs = d["vars"]
            if mod in ("boost_beta3",) and d["tag"] == "2":
                for k in ("x", "y", "z", "rho"):
                    if k in vs:
                        base[vs[k]] = base[vs[k]] * shrink * m.mpf("0.3")
            if (mod == "boost_p4" and d["tag"] == "2") or mod in ("gamma", "rapidity", "deltaRapidityPhi", "deltaRapidityPhi2", "Mt", "beta"):
                if "t" in vs:
                    base[vs["t"]] = abs(base[vs["t"]]) * grow + 1

    def concrete_args(self, ctx, env):
        stored = stored_from_env(ctx, env)
        ns = len(self.snames)
        sc = []
        it = iter(stored)
        args = []
        consts = OPS.scalar_cases(self.pk, self.modname, self.snames, self.prop)[0][1]
        for n in self.snames:
            k = consts[n]
            if isinstance(k, tuple):
                args.append(k[1])
            else:
                args.append(next(it))
        vec = list(it)
        return args, vec

    def refute_at(self, ctx, env, got, ref, scalar_result, res=None, need_representable=False, phi_turns=None):
        """run the real function and the reference on concrete numbers; returns a counterexample dict or None.
        phi_turns: whole turns added to the stored azimuth of the polar operands (a stored phi outside (-pi, pi] denotes the same vector)"""
        m = mp()
        try:
            sargs, vec = self.concrete_args(ctx, env)
            if phi_turns:
                vec = [list(c) for c in vec]
                for i, v in enumerate(self.vs):
                    if v[0] is AzimuthalRhoPhi:
                        vec[i][1] = vec[i][1] + 2 * m.pi * phi_turns[i % len(phi_turns)]
            flat = [c for v in vec for c in v]
            nviews = [num_view(v, c) for v, c in zip(self.vs, vec)]
            r_got = NL.run_real(self.fn, sargs + flat)
            if self.spec is not None:
                r_ref = self.spec(NL.MPLIB, dict(zip(self.snames, sargs)), nviews)
            else:
                r_ref = NL.run_real(self.cfn, sargs + [c for v in nviews for c in v])
        except (NL.OutsideDomain, ZeroDivisionError, ValueError, TypeError):
            return None
        if not NL.finite(r_got) or not NL.finite(r_ref):
            return None
        ok = True
        if scalar_result:
            ok = numeric_equal(r_got, r_ref)
            cmp_got, cmp_ref = r_got, r_ref
        else:
            oc = [r for r in self.returns if r is not None]
            rc = [r for r in self.creturns if r is not None]
            try:
                cmp_got = num_view(oc, list(r_got))
                cmp_ref = list(r_ref) if self.spec is not None else num_view(rc, list(r_ref))
            except (ZeroDivisionError, ValueError):
                return None
            if not NL.finite(cmp_got) or not NL.finite(cmp_ref):
                return None
            if need_representable:
                # numeric form of OPS.result_rep (used when the symbolic precondition could not be built)
                needs_rho = oc[0] is AzimuthalRhoPhi or (len(oc) >= 2 and oc[1] in (LongitudinalTheta, LongitudinalEta))
                if needs_rho and not (cmp_ref[0] ** 2 + cmp_ref[1] ** 2 > m.mpf(10) ** (-20)):
                    return None
                if len(oc) >= 3 and oc[2] is TemporalTau and not (cmp_ref[3] > m.mpf(10) ** (-20)):
                    return None
            ok = all(numeric_equal(a, b) for a, b in zip(cmp_got, cmp_ref))
        # engine cross-check: the symbolic result evaluated at the point must agree with the real function
        if res is not None:
            try:
                sym = got if isinstance(got, tuple) else (got,)
                real = r_got if isinstance(r_got, tuple) else (r_got,)
                for sv, rv in zip(sym, real):
                    if isinstance(sv, S.Junk):
                        continue
                    nv = S.to_num(sv, env)
                    if isinstance(sv, Ang) and not isinstance(nv, bool):
                        d = (m.mpf(nv) - m.mpf(rv)) / (2 * m.pi)
                        same = abs(d - m.nint(d)) < m.mpf(10) ** (-30)
                    else:
                        same = numeric_equal(nv, rv, m.mpf(10) ** (-30))
                    if not same:
                        res.setdefault("engine_mismatch", []).append(
                            dict(symbolic=str(nv), real=str(rv), inputs=[str(x) for x in sargs + flat]))
                res["engine_crosschecks"] += 1
            except (KeyError, ZeroDivisionError, ValueError, TypeError) as e:
                res.setdefault("engine_crosscheck_skipped", 0)
                res["engine_crosscheck_skipped"] += 1
        if ok:
            return None
        return dict(function=f"{self.mod.__name__}:{self.fn.__name__}", signature=sig_str(self.sig), scalars=[_s(x) for x in sargs],
                    stored=[[_s(c) for c in v] for v in vec], got=_s(cmp_got), expected=_s(cmp_ref),
                    expected_from=(f"spec function vv.specs.SPECS[{self.pk},{self.modname}] (documented definition)" if self.spec is not None
                                   else f"{self.mod.__name__}:{self.cfn.__name__} on the Cartesian view"))

    def model_inputs(self, ctx, model):
        if not model:
            return None
        try:
            base = {v: mp().mpf(q.numerator) / q.denominator for v, q in model.items() if q is not None and v not in ctx.vardef}
            env = EnvGet(ctx, base)
            sargs, vec = self.concrete_args(ctx, env)
            return dict(scalars=[_s(x) for x in sargs], stored=[[_s(c) for c in v] for v in vec])
        except Exception:
            return None

    def validate_model(self, ctx, model, got, ref, scalar_result):
        if not model:
            return None
        try:
            base = {v: mp().mpf(q.numerator) / q.denominator for v, q in model.items() if q is not None and v not in ctx.vardef}
            env = EnvGet(ctx, base)
            if not all(f_eval(f, env, tol=mp().mpf(10) ** (-25)) for f in ctx.pre):
                return None          # the point read back from the solver model is outside the contract's precondition
            return self.refute_at(ctx, env, got, ref, scalar_result, None)
        except Exception:
            return None


def congruence(ctx):
    """z3 is poor at mixing uninterpreted functions with NRA, so congruence of the opaque atoms VAL(kind, args) is done here:
    for two atoms of the same kind the argument equalities are proved as pure NRA sub-goals and the atoms are then identified"""
    items = list(ctx.opaque.values())
    merged = 0
    for i in range(len(items)):
        for j in range(i + 1, len(items)):
            a, b = items[i], items[j]
            if a["kind"] != b["kind"] or str(a["window"]) != str(b["window"]):
                continue
            goal = f_and(*[x.rel("==", y) for x, y in zip(a["args"], b["args"])])
            r = PR.prove(ctx, goal, timeout_ms=5000, use_cvc5=False, want_model=False)
            from .poly import Poly
            same = f_rel(Poly.var(a["var"]) - Poly.var(b["var"]), "==")
            if r["status"] == "proved":
                ctx.hyp(same)
                merged += 1
            else:
                # injectivity: an angle within one window of length <= 2 pi is determined by (cos, sin); log is injective
                w = a["window"]
                if a["kind"] == "log" or (w is not None and w[1] - w[0] <= 2):
                    ctx.hyp(f_iff(same, goal))
    return merged


class KernelJob:
    """proves a kernel contract of modular.KERNELS on plain variables (parameter level), with the kernels' real bodies"""

    def __init__(self, key, prop="C01"):
        self.key, self.prop = tuple(key), prop
        self.base_id = f"{prop}/{key[0]}.{key[1]}.kernel[cartesian_tau]"

    def run(self):
        from . import modular
        from .poly import Poly
        modular.ensure_installed()
        ftau, ft = modular.KERNEL_ORIG[self.key]
        res = dict(id=self.base_id, pk=self.key[0], mod=self.key[1], sig="kernel", obligations=[], status=None, t=0.0,
                   cases=0, refuter_points=0, engine_crosschecks=0)
        t0 = time.time()
        worst = "proved"
        for tc in ("nonneg", "neg"):
            res["cases"] += 1
            ctx = S.newctx()
            x1, y1, z1, tau = mk_operand("1", [AzimuthalXY, LongitudinalZ, TemporalTau], tau_case=tc)
            if self.key[1] == "boost_beta3":
                params = [mk_scalar(n) for n in ("betax", "betay", "betaz")]
            else:
                x2, y2, z2 = [mk_scalar(n) for n in ("x2", "y2", "z2")]
                mass = mk_scalar("mass", "pos")
                energy = LIB.sqrt(mass * mass + x2 * x2 + y2 * y2 + z2 * z2)
                params = [energy, mass, mass * mass, x2, y2, z2]
            for desc, f in modular.kernel_requires(self.key, params):
                ctx.hyp(f, pre=True)
            T = LIB.sqrt(LIB.maximum(LIB.copysign(tau * tau, tau) + (x1 * x1 + y1 * y1 + z1 * z1), 0))
            rt = ft(LIB, x1, y1, z1, T, *params)
            ctx.hyp(A.of(rt[3]).rel(">"), pre=True)
            rtau = ftau(LIB, x1, y1, z1, tau, *params)
            goals = [(f"spatial.{n}", A.of(rtau[i]).rel("==", A.of(rt[i]))) for i, n in enumerate("xyz")]
            goals.append(("tau-kept", A.of(rtau[3]).rel("==", tau)))
            tp = A.of(rtau[3])
            # t-view(result) = sqrt(max(Q, 0)) with Q = sgn(tau')tau'^2 + |p'|^2; with t' > 0 (precondition) it equals t' iff Q == t'^2
            Q = LIB.copysign(tp * tp, tp) + (A.of(rtau[0]) ** 2 + A.of(rtau[1]) ** 2 + A.of(rtau[2]) ** 2)
            goals.append(("interval", Q.rel("==", A.of(rt[3]) * A.of(rt[3]))))
            suffix = f"{{tau:{tc}}}"
            # numeric refuter with the real kernels
            rng = random.Random(hash((SEED, self.base_id, tc)) & 0xFFFFFFFF)
            npts = 0
            for _ in range(200):
                if npts >= NPOINTS:
                    break
                base = sample_inputs(ctx, rng)
                for d in ctx.inputs:
                    if "scalar" in d and d["scalar"].startswith("beta"):
                        base[d["vars"]] = mp().mpf(rng.uniform(-0.55, 0.55))
                env = EnvGet(ctx, base)
                try:
                    if not all(f_eval(f, env) for f in ctx.pre):
                        continue
                    args = [S.to_num(v, env) for v in (x1, y1, z1)]
                    pv = [S.to_num(A.of(p), env) for p in params]
                    a = NL.run_real(ftau, args + [S.to_num(tau, env)] + pv)
                    b = NL.run_real(ft, args + [S.to_num(T, env)] + pv)
                except (NL.OutsideDomain, ZeroDivisionError, KeyError, ValueError):
                    continue
                npts += 1
                res["refuter_points"] += 1
                Tn = num_view([AzimuthalXY, LongitudinalZ, TemporalTau], list(a))[3]
                if not (all(numeric_equal(a[i], b[i]) for i in range(3)) and numeric_equal(Tn, b[3]) and numeric_equal(a[3], S.to_num(tau, env))):
                    res["obligations"].append(dict(id=f"{self.base_id}{suffix}/refuter", kind="refuter", status="refuted", t=0,
                                                   by="numeric evaluation of the real kernels (mpmath 60 digits)",
                                                   counterexample=dict(function=f"{ftau.__module__}:{ftau.__name__}", args=[_s(x) for x in args + [S.to_num(tau, env)] + pv],
                                                                       got=_s(list(a)) + [_s(Tn)], expected=_s(list(b)))))
                    worst = _worse(worst, "refuted")
                    break
            seen = set()
            for desc, f in ctx.defs:
                k = repr(f)
                if k in seen:
                    continue
                seen.add(k)
                r = PR.prove(ctx, f)
                res["obligations"].append(dict(id=f"{self.base_id}{suffix}/defined.{len(seen)}", kind="definedness", status=r["status"],
                                               by=r["by"], t=round(r["t"], 4), note=desc))
                worst = _worse(worst, r["status"] if r["status"] != "refuted" else "unknown")
            lemmas = []
            for nm, g in goals:
                r = PR.radical_tactic(ctx, g, extra=lemmas, timeout_ms=5000) or PR.prove(ctx, g, extra=lemmas)
                st = r["status"] if r["status"] != "refuted" else "unknown"
                res["obligations"].append(dict(id=f"{self.base_id}{suffix}/{nm}", kind="value", status=st, by=r["by"], t=round(r["t"], 4)))
                if st == "proved":
                    lemmas.append(g)
                worst = _worse(worst, st)
        res["status"] = worst
        res["t"] = round(time.time() - t0, 3)
        res["stats"] = dict(PR.STATS)
        return res


def _s(x):
    if isinstance(x, (list, tuple)):
        return [_s(y) for y in x]
    if isinstance(x, bool):
        return x
    try:
        return mp().nstr(mp().mpf(x), 25)
    except Exception:
        return str(x)


_ORDER = {"proved": 0, "unknown": 1, "refuted": 2, "error": 3}


def _worse(a, b):
    return a if _ORDER.get(a, 3) >= _ORDER.get(b, 3) else b


def run_variant_job(args):
    pk, modname, sig, prop = args
    try:
        from . import modular
        modular.ensure_installed()
        if sig == "kernel":
            return KernelJob((pk, modname), prop).run()
        return VariantJob(pk, modname, sig, prop).run()
    except Exception as e:
        return dict(id=f"{prop}/{pk}.{modname}[{sig if isinstance(sig, str) else sig_str(sig)}]", pk=pk, mod=modname, sig=str(sig), status="error",
                    obligations=[], err=f"{type(e).__name__}: {e}", tb=traceback.format_exc()[-1500:], t=0)
