"""Lemma jobs of Engine A: properties stated over several calls of the real functions (C09-C13, C08).

A lemma is ordinary Python written against a small context `L`; it is executed twice: once with the symbolic `lib`
(obligations for the solver) and, at seeded points, with mpmath numbers on the same real functions (refuter, model
validation, engine cross-check).  The functions called are the live objects from the dispatch tables / modules of /repo.
"""
from __future__ import annotations

import importlib
import os
import random
import time
import traceback
from fractions import Fraction as Fr

from . import symreal as S
from . import prover as PR
from . import numlib as NL
from . import ops as OPS
from .symreal import A, Ang, Lg, B, PiMul, LIB, OutOfSubset, f_and, f_rel, f_iff, f_eval, TRUE, FALSE, EnvGet
from .views import (BYNAME, SHORT, mk_operand, mk_scalar, view, num_view, sample_inputs, stored_from_env, sig_str,
                    AzimuthalXY, LongitudinalZ, TemporalT)
from .enginea import value_goals, numeric_equal, congruence, _s, _worse, NPOINTS, SEED


class Reject(Exception):
    """numeric point outside the lemma's assumptions"""


class Fail(Exception):
    def __init__(self, name, got, exp):
        self.name, self.got, self.exp = name, got, exp


def _classes(sigstr):
    return [BYNAME[s] for s in sigstr.split(",")]


class LBase:
    def fn(self, pk, mod, sigstr):
        m = importlib.import_module(f"vector._compute.{pk}.{mod}")
        key = tuple(BYNAME.get(s, s) for s in sigstr.split(","))
        f = m.dispatch_map[key][0]
        lib = self.lib
        return lambda *a: f(lib, *a)

    def returns(self, pk, mod, sigstr):
        m = importlib.import_module(f"vector._compute.{pk}.{mod}")
        key = tuple(BYNAME.get(s, s) for s in sigstr.split(","))
        return [r for r in m.dispatch_map[key][1:] if r is not None]

    def attr(self, pk, mod, name):
        m = importlib.import_module(f"vector._compute.{pk}.{mod}")
        f = getattr(m, name)
        f = getattr(f, "__wrapped_original__", f)
        lib = self.lib
        return lambda *a: f(lib, *a)

    def cart(self, tag, dim, **kw):
        return self.vec(tag, {2: "xy", 3: "xy,z", 4: "xy,z,t"}[dim], **kw)


class LSym(LBase):
    mode = "sym"

    def __init__(self, case=None):
        self.lib = LIB
        self.claims = []
        self.case = case or {}

    def vec(self, tag, sigstr, tau_case="nonneg", t_case=None, offaxis=None):
        return mk_operand(tag, _classes(sigstr), tau_case=tau_case, t_case=t_case, offaxis=offaxis)

    def view(self, sigstr, coords):
        return view(_classes(sigstr), list(coords))

    def angle(self, name):
        return mk_scalar(name, "angle")

    def real(self, name, kind="real"):
        return mk_scalar(name, kind)

    def const(self, v):
        return v

    def assume(self, b):
        f = b.f if isinstance(b, B) else ("const", bool(b))
        S.CTX.hyp(f, pre=True)

    def eq(self, name, a, b):
        if isinstance(a, (tuple, list)):
            if len(a) != len(b):
                self.claims.append((name + ".arity", FALSE))
                return
            for i, (x, y) in enumerate(zip(a, b)):
                self.claims += value_goals(x, y, f"{name}.{i}")
        else:
            self.claims += value_goals(a, b, name)

    def holds(self, name, b):
        self.claims.append((name, b.f if isinstance(b, B) else ("const", bool(b))))

    def same_term(self, name, a, b):
        """identity of normal forms (bit-for-bit pass-through for every value)"""
        from .views import vkey
        self.claims.append((name, TRUE if vkey(a) == vkey(b) else FALSE))

    def sqrt(self, a): return LIB.sqrt(a)
    def abs(self, a): return LIB.absolute(a)

    def half_angle_pair(self, name):
        """an angle a = 2h given through its half: returns (a, cos h, sin h)"""
        h = mk_scalar(name + "_half", "angle")
        return h + h, h.c, h.s

    @property
    def pi(self):
        return PiMul(1)


class LNum(LBase):
    mode = "num"

    def __init__(self, values, case=None):
        self.lib = NL.MPLIB
        self.values = list(values)
        self.case = case or {}
        self.checked = 0

    def _next(self):
        return self.values.pop(0)

    def vec(self, tag, sigstr, **kw):
        return list(self._next())

    def view(self, sigstr, coords):
        return num_view(_classes(sigstr), list(coords))

    def angle(self, name):
        return self._next()

    def real(self, name, kind="real"):
        return self._next()

    def const(self, v):
        return v

    def assume(self, b):
        if not bool(b):
            raise Reject()

    def eq(self, name, a, b):
        import mpmath as mp
        if isinstance(a, (tuple, list)):
            if len(a) != len(b):
                raise Fail(name, a, b)
            for i, (x, y) in enumerate(zip(a, b)):
                self.eq(f"{name}.{i}", x, y)
            return
        self.checked += 1
        if not NL.finite(a) or not NL.finite(b):
            raise Reject()
        if not numeric_equal(a, b, mp.mpf(10) ** (-30)):
            # angles are compared modulo 2 pi only when the lemma says so (use view components instead)
            raise Fail(name, a, b)

    def holds(self, name, b):
        self.checked += 1
        if not bool(b):
            raise Fail(name, b, True)

    def same_term(self, name, a, b):
        self.eq(name, a, b)

    def sqrt(self, a): return NL.MPLIB.sqrt(a)
    def abs(self, a): return abs(a)

    def half_angle_pair(self, name):
        import mpmath as mp
        h = self._next()
        return 2 * h, mp.cos(h), mp.sin(h)

    @property
    def pi(self):
        import mpmath as mp
        return mp.pi


class LemmaJob:
    def __init__(self, prop, lid, func, cases=None, abstract=False, points=None, structured=None):
        self.prop, self.lid, self.func = prop, lid, func
        self.structured = structured      # optional: vals -> iterable of (label, vals') - correlated points a random draw never hits
        self.cases = cases or [{}]
        self.base_id = f"{prop}/{lid}"
        self.abstract = abstract
        self.points = points

    def run(self):
        from . import modular
        modular.ensure_installed()
        res = dict(id=self.base_id, pk="lemma", mod=self.lid, sig="", obligations=[], status=None, t=0.0, cases=0,
                   refuter_points=0, engine_crosschecks=0)
        t0 = time.time()
        worst = "proved"
        try:
            for case in self.cases:
                res["cases"] += 1
                worst = _worse(worst, self.run_case(case, res))
        except OutOfSubset as e:
            res["obligations"].append(dict(id=self.base_id + "/subset", kind="subset", status="unknown", by="engine", t=0,
                                           note=f"left the verifiable subset: {e}"))
            worst = _worse(worst, "unknown")
        res["status"] = worst
        res["t"] = round(time.time() - t0, 3)
        return res

    def numeric_pass(self, ctx, env, case):
        vals = stored_from_env(ctx, env)
        Ln = LNum(vals, case)
        self.func(Ln)
        n = Ln.checked
        if self.structured is not None:
            for slabel, v2 in self.structured(vals):
                Ls = LNum(v2, case)
                try:
                    self.func(Ls)
                except Fail as f:
                    f.structured = (slabel, v2)
                    raise
                except (Reject, NL.OutsideDomain, ZeroDivisionError, ValueError, OverflowError):
                    continue
                n += Ls.checked
        return n

    def run_case(self, case, res):
        label = ",".join(f"{k}:{v}" for k, v in case.items())
        suffix = f"{{{label}}}" if label else ""
        ctx = S.newctx()
        ctx.abstract_views = self.abstract
        Ls = LSym(case)
        escaped = None
        try:
            with S.time_budget():
                self.func(Ls)
        except OutOfSubset as e:
            # undecided - unless the numeric refuter below (real functions at seeded points of the precondition built so far) finds a failing input
            escaped = e
        rng = random.Random(hash((SEED, self.base_id, label)) & 0xFFFFFFFF)
        npts, tries = 0, 0
        want = self.points or NPOINTS
        while npts < want and tries < 300:
            tries += 1
            base = sample_inputs(ctx, rng)
            _fix_numeric(ctx, base, rng)
            env = EnvGet(ctx, base)
            try:
                if not all(f_eval(f, env) for f in ctx.pre):
                    continue
                n = self.numeric_pass(ctx, env, case)
                npts += 1
                res["refuter_points"] += 1
            except (Reject, NL.OutsideDomain, ZeroDivisionError, KeyError, ValueError, OverflowError):
                continue
            except Fail as f:
                cx = dict(lemma=self.lid, case=case, inputs=_s(stored_from_env(ctx, env)), claim=f.name, got=_s(f.got), expected=_s(f.exp))
                if getattr(f, "structured", None):
                    cx["base_inputs"] = cx["inputs"]       # the correlated point is re-derived from these on replay (exact relationships)
                    cx["inputs"] = _s(f.structured[1])
                    cx["structured_point"] = f.structured[0]
                res["obligations"].append(dict(id=f"{self.base_id}{suffix}/refuter", kind="refuter", status="refuted", t=0,
                                               by="numeric evaluation of the real functions (mpmath 60 digits)", counterexample=cx))
                return "refuted"
        if escaped is not None:
            raise escaped
        if npts == 0:
            st, _ = PR.satisfiable(ctx, list(ctx.pre), 10000)
            if st == "unsat":
                res.setdefault("vacuous_cases", []).append(label)
                return "proved"
        worst = "proved"
        seen = set()
        for desc, f in ctx.defs:
            k = repr(f)
            if k in seen:
                continue
            seen.add(k)
            r = PR.prove(ctx, f)
            st = r["status"]
            o = dict(id=f"{self.base_id}{suffix}/defined.{len(seen)}", kind="definedness", status=st, by=r["by"], t=round(r["t"], 4), note=desc)
            if st == "refuted":
                o["counterexample"] = dict(lemma=self.lid, case=case, model=self.model_inputs(ctx, r.get("model")))
                if o["counterexample"]["model"] is None:
                    o["status"] = "unknown"
            res["obligations"].append(o)
            worst = _worse(worst, o["status"])
        congruence(ctx)
        lemmas = []
        for nm, g in Ls.claims:
            r = PR.radical_tactic(ctx, g, extra=lemmas, timeout_ms=3000) or PR.prove(ctx, g, extra=lemmas)
            o = dict(id=f"{self.base_id}{suffix}/{nm}", kind="value", status=r["status"], by=r["by"], t=round(r["t"], 4))
            if r["status"] == "refuted":
                cx = self.validate(ctx, r.get("model"), case)
                if cx is None:
                    o["status"] = "unknown"
                    o["note"] = "solver model did not replay on the real functions (spurious)"
                else:
                    o["counterexample"] = cx
            if o["status"] == "proved":
                lemmas.append(g)
            res["obligations"].append(o)
            worst = _worse(worst, o["status"])
        return worst

    def model_inputs(self, ctx, model):
        if not model:
            return None
        try:
            import mpmath as mp
            base = {v: mp.mpf(q.numerator) / q.denominator for v, q in model.items() if q is not None and v not in ctx.vardef}
            return _s(stored_from_env(ctx, EnvGet(ctx, base)))
        except Exception:
            return None

    def validate(self, ctx, model, case):
        if not model:
            return None
        try:
            import mpmath as mp
            base = {v: mp.mpf(q.numerator) / q.denominator for v, q in model.items() if q is not None and v not in ctx.vardef}
            env = EnvGet(ctx, base)
            if not all(f_eval(f, env, tol=mp.mpf(10) ** (-25)) for f in ctx.pre):
                return None
            try:
                self.numeric_pass(ctx, env, case)
            except Fail as f:
                return dict(lemma=self.lid, case=case, inputs=_s(stored_from_env(ctx, env)), claim=f.name, got=_s(f.got), expected=_s(f.exp))
            except Exception:
                return None
            return None
        except Exception:
            return None


def _fix_numeric(ctx, base, rng):
    import mpmath as mp
    for d in ctx.inputs:
        if "scalar" in d:
            n = d["scalar"]
            if n.startswith("beta") or d.get("kind") == "unit":
                base[d["vars"]] = mp.mpf(rng.uniform(-0.57, 0.57))
            if n.startswith("gamma"):
                g = 1 + abs(mp.mpf(rng.gauss(0, 1.5)))
                base[d["vars"]] = g


def run_lemma_job(job):
    try:
        return job.run()
    except Exception as e:
        return dict(id=job.base_id, pk="lemma", mod=job.lid, sig="", status="error", obligations=[],
                    err=f"{type(e).__name__}: {e}", tb=traceback.format_exc()[-1500:], t=0)
