import importlib
import sys
import traceback

import vv  # noqa: F401  (sets sys.path for the repository under check)


def main():
    prop = sys.argv[1]
    if "--replay" in sys.argv:
        from vv import replay
        return replay.main(prop, sys.argv[sys.argv.index("--replay") + 1])
    try:
        mod = importlib.import_module(f"vv.props.{prop.lower()}")
    except ModuleNotFoundError:
        print(f"no check for {prop}")
        return 3
    try:
        return mod.main(sys.argv[2:])
    except Exception:
        traceback.print_exc()
        print(f"CHECKER-ERROR: property={prop} crashed")
        return 3


if __name__ == "__main__":
    sys.exit(main())
