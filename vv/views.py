"""Abstraction function (`view`) and representation predicate (`rep`) of stored coordinates — written from the
documentation (docs/index.md, VectorProtocol* docstrings), never from the compute functions.

  X = rho cos(phi), Y = rho sin(phi);  Z = z | rho*cot(theta) | rho*sinh(eta);
  T = t | +sqrt(max(sgn(tau) tau^2 + |p|^2, 0))
"""
from __future__ import annotations

import random
from fractions import Fraction as Fr

from . import symreal as S
from .poly import Poly
from .symreal import A, Ang, Lg, LIB, f_rel, f_and

from vector._methods import (AzimuthalXY, AzimuthalRhoPhi, LongitudinalZ, LongitudinalTheta,
                             LongitudinalEta, TemporalT, TemporalTau)

AZ = (AzimuthalXY, AzimuthalRhoPhi)
LO = (LongitudinalZ, LongitudinalTheta, LongitudinalEta)
TE = (TemporalT, TemporalTau)
SHORT = {AzimuthalXY: "xy", AzimuthalRhoPhi: "rhophi", LongitudinalZ: "z", LongitudinalTheta: "theta",
         LongitudinalEta: "eta", TemporalT: "t", TemporalTau: "tau"}
BYNAME = {v: k for k, v in SHORT.items()}


def sig_str(sig):
    return ",".join(SHORT.get(c, str(c)) for c in sig)


def groups(sig):
    """split a dispatch_map key into per-vector lists of coordinate classes (strings such as Euler orders are skipped)"""
    vs, cur = [], []
    for c in sig:
        if isinstance(c, str):
            continue
        if c in AZ and cur:
            vs.append(cur); cur = []
        cur.append(c)
    if cur:
        vs.append(cur)
    return vs


def ncoords(v):
    return sum(2 if c in AZ else 1 for c in v)


def cart_of(sig):
    return tuple((AzimuthalXY if c in AZ else LongitudinalZ if c in LO else TemporalT if c in TE else c) for c in sig)


def is_cart(sig):
    return cart_of(sig) == tuple(sig)


# --------------------------------------------------------------------------------------------- symbolic operands
def mk_operand(tag, classes, tau_case="nonneg", offaxis=None, t_case=None):
    """fresh symbolic stored coordinates of one vector satisfying rep; returns list of coordinate values"""
    ctx = S.CTX
    out = []
    desc = dict(tag=tag, classes=[SHORT[c] for c in classes], vars={})
    az = classes[0]
    need_off = offaxis if offaxis is not None else (len(classes) >= 2 and classes[1] in (LongitudinalTheta, LongitudinalEta))
    if az is AzimuthalXY:
        x = ctx.new(f"x{tag}"); y = ctx.new(f"y{tag}")
        desc["vars"].update(x=x, y=y)
        out += [A.var(x), A.var(y)]
        if need_off:
            ctx.hyp(f_rel(Poly.var(x, 2) + Poly.var(y, 2), ">"), pre=True)
            desc["offaxis"] = True
    else:
        r = ctx.new(f"rho{tag}", "+")
        ctx.hyp(f_rel(Poly.var(r), ">"), pre=True)
        ph = Ang.atom(f"phi{tag}", -1, 1)
        ctx.atomval[ph.name] = (lambda env, cv=ph.cv, sv=ph.sv: S._mp().atan2(env[sv], env[cv]))
        desc["vars"].update(rho=r, phi=(ph.cv, ph.sv))
        out += [A.var(r), ph]
    if len(classes) >= 2:
        l = classes[1]
        if l is LongitudinalZ:
            z = ctx.new(f"z{tag}"); desc["vars"]["z"] = z
            out.append(A.var(z))
        elif l is LongitudinalTheta:
            # theta in (0, pi) is parametrised by k = cot(theta), any real: cos = k/w, sin = 1/w, w = sqrt(1+k^2),
            # tan(theta/2) = 1/(w+k).  This keeps z = rho*k polynomial.
            k = ctx.new(f"cot{tag}")
            kA = A.var(k)
            w = LIB.sqrt(1 + kA * kA)
            name = f"th{tag}"
            th = Ang(kA * w.recip(), w.recip(), {name: Fr(1)})
            th.name = name
            th.tanhalf = (w + kA).recip()
            ctx.ranges[name] = (Fr(0), Fr(1))
            ctx.atomval[name] = (lambda env, k=k: S._mp().atan2(1, env[k]))
            desc["vars"]["theta"] = k
            out.append(th)
        else:
            E = ctx.new(f"E{tag}", "+")
            ctx.hyp(f_rel(Poly.var(E), ">"), pre=True)
            desc["vars"]["eta"] = E
            out.append(Lg([(Fr(1), A.var(E))]))
    if len(classes) >= 3:
        if classes[2] is TemporalT:
            t = ctx.new(f"t{tag}", {"nonneg": "0+", "neg": "-"}.get(t_case)); desc["vars"]["t"] = t
            if t_case == "nonneg":
                ctx.hyp(f_rel(Poly.var(t), ">="), pre=True)
            elif t_case == "neg":
                ctx.hyp(f_rel(Poly.var(t), "<"), pre=True)
            desc["t_case"] = t_case
            out.append(A.var(t))
        else:
            if tau_case == "nonneg":
                tau = ctx.new(f"tau{tag}", "0+")
                ctx.hyp(f_rel(Poly.var(tau), ">="), pre=True)
            elif tau_case == "pos":
                tau = ctx.new(f"tau{tag}", "+")
                ctx.hyp(f_rel(Poly.var(tau), ">"), pre=True)
            elif tau_case == "free":
                tau = ctx.new(f"tau{tag}")          # any finite value, no representability assumption
            else:
                tau = ctx.new(f"tau{tag}", "-")
                ctx.hyp(f_rel(Poly.var(tau), "<"), pre=True)
            desc["vars"]["tau"] = tau
            desc["tau_case"] = tau_case
            out.append(A.var(tau))
    ctx.inputs.append(desc)
    if len(classes) >= 3 and classes[2] is TemporalTau and tau_case == "neg":
        # representable: sgn(tau) tau^2 + |p|^2 >= 0
        X, Y, Z = view(classes[:2], out[:3])
        ctx.hyp((X * X + Y * Y + Z * Z - out[3] * out[3]).rel(">="), pre=True)
    return out


def mk_scalar(name, kind="real"):
    ctx = S.CTX
    if kind == "angle":
        a = Ang.atom(name)
        ctx.atomval[a.name] = (lambda env, cv=a.cv, sv=a.sv: S._mp().atan2(env[sv], env[cv]))
        ctx.inputs.append(dict(scalar=name, kind="angle", vars=(a.cv, a.sv)))
        return a
    sign = {"pos": "+", "nonneg": "0+", "neg": "-"}.get(kind)
    v = ctx.new(name, sign)
    if kind == "pos":
        ctx.hyp(f_rel(Poly.var(v), ">"), pre=True)
    elif kind == "nonneg":
        ctx.hyp(f_rel(Poly.var(v), ">="), pre=True)
    elif kind == "neg":
        ctx.hyp(f_rel(Poly.var(v), "<"), pre=True)
    ctx.inputs.append(dict(scalar=name, kind=kind, vars=v))
    return A.var(v)


def rho_of(classes, coords):
    if classes[0] is AzimuthalRhoPhi:
        return A.of(coords[0])
    x, y = A.of(coords[0]), A.of(coords[1])
    return LIB.sqrt(x * x + y * y)


def abstract_value(a, name):
    """name a compound value: a fresh variable v with the defining hypothesis v*den == num.  Used for the Cartesian view
    of eta/theta-stored operands in the boost contracts, so that the kernels are applied to plain variables"""
    ctx = S.CTX
    key = ("abstract",) + a.key()
    if key in ctx.memo:
        return ctx.memo[key]
    sg = a.sign()
    v = ctx.new(f"{name}{len(ctx.names)}", sg, lambda env, a=a: a.num(env))
    ctx.hyp(f_rel(Poly.var(v) * a.d - a.n, "=="))
    if sg in ("+", "-", "0+", "0-"):
        ctx.hyp(f_rel(Poly.var(v), {"+": ">", "-": "<", "0+": ">=", "0-": "<="}[sg]))
    r = A.var(v)
    ctx.memo[key] = r
    ctx.notes.append("view abstraction")
    return r


def vkey(v):
    if isinstance(v, A):
        return ("A",) + v.key()
    if isinstance(v, Ang):
        return ("Ang",) + v.c.key() + v.s.key()
    if isinstance(v, Lg):
        return ("Lg",) + tuple(sorted((str(q),) + p.key() for q, p in v.terms))
    return ("py", repr(v))


def view(classes, coords):
    """stored coordinates -> Cartesian components [X, Y, (Z), (T)] as Alg values.
    Coordinates that were handed out by a callee's contract (modular.encode) carry that contract's postcondition
    `view(result) == cart`; it is used directly instead of being re-derived from the encoded coordinates."""
    az = classes[0]
    cache = getattr(S.CTX, "viewcache", None)
    if cache is None and getattr(S.CTX, "abstract_views", False):
        cache = S.CTX.__dict__.setdefault("viewcache", {})
    k2 = None
    if cache is not None and az is AzimuthalRhoPhi:
        k2 = ("az", vkey(coords[0]), vkey(coords[1]))
    if k2 is not None and k2 in cache:
        X, Y = cache[k2]
    elif az is AzimuthalXY:
        X, Y = A.of(coords[0]), A.of(coords[1])
    else:
        rho, phi = coords[0], coords[1]
        X, Y = rho * LIB.cos(phi), rho * LIB.sin(phi)
    out = [X, Y]
    if len(classes) >= 2:
        l = classes[1]
        k3 = None
        if cache is not None and l is not LongitudinalZ:
            k3 = ("lo", SHORT[az], SHORT[l], vkey(coords[0]), vkey(coords[1]), vkey(coords[2]))
        if k3 is not None and k3 in cache:
            Z = cache[k3]
        elif l is LongitudinalZ:
            Z = A.of(coords[2])
        else:
            rho = rho_of(classes, coords)
            if l is LongitudinalTheta:
                th = coords[2]
                if not isinstance(th, Ang):
                    raise S.OutOfSubset("theta coordinate is not an angle")
                Z = rho / LIB.tan(th)
            else:
                eta = coords[2]
                if not isinstance(eta, Lg):
                    raise S.OutOfSubset("eta coordinate is not a logarithm")
                Z = rho * LIB.sinh(eta)
            if getattr(S.CTX, "abstract_views", False) and (not Z.d.is_one() or Z.n.nterms() > 1):
                Z = abstract_value(Z, "Zv")
                if k3 is not None:
                    cache[k3] = Z
        out.append(Z)
    if len(classes) >= 3:
        if classes[2] is TemporalT:
            T = A.of(coords[3])
        else:
            tau = A.of(coords[3])
            X, Y, Z = out
            k4 = ("te", vkey(X), vkey(Y), vkey(Z), vkey(tau))
            if cache is not None and k4 in cache:
                T = cache[k4]          # postcondition of a kernel contract (modular.kernel stubs)
            else:
                T = LIB.sqrt(LIB.maximum(LIB.copysign(tau * tau, tau) + (X * X + Y * Y + Z * Z), 0))
        out.append(T)
    return out


# --------------------------------------------------------------------------------------------- numeric side
def sample_inputs(ctx, rng, style="generic"):
    """random numeric values for all input variables of ctx (before precondition filtering); returns base env dict"""
    mp = S._mp()
    env = {}

    def real():
        k = rng.random()
        if k < 0.15:
            return mp.mpf(rng.choice([-1, 1])) * mp.mpf(rng.randint(1, 5))
        if k < 0.3:
            return mp.mpf(rng.uniform(-0.2, 0.2))
        return mp.mpf(rng.gauss(0, 2.5))

    def pos():
        return mp.mpf(abs(rng.gauss(0, 2.5)) + 0.05)

    for d in ctx.inputs:
        if "scalar" in d:
            if d["kind"] == "angle":
                a = mp.mpf(rng.uniform(-7, 7))
                env[d["vars"][0]] = mp.cos(a); env[d["vars"][1]] = mp.sin(a)
                env[("angle", d["scalar"])] = a
            elif d["kind"] == "pos":
                env[d["vars"]] = pos()
            elif d["kind"] == "nonneg":
                env[d["vars"]] = pos() if rng.random() > 0.1 else mp.mpf(0)
            elif d["kind"] == "neg":
                env[d["vars"]] = -pos()
            elif d["kind"] == "unit":
                env[d["vars"]] = mp.mpf(rng.uniform(-0.999, 0.999))
            else:
                env[d["vars"]] = real()
            continue
        vs = d["vars"]
        if "x" in vs:
            env[vs["x"]] = real(); env[vs["y"]] = real()
        if "rho" in vs:
            env[vs["rho"]] = pos()
            a = mp.mpf(rng.uniform(-3.14159, 3.14159))
            env[vs["phi"][0]] = mp.cos(a); env[vs["phi"][1]] = mp.sin(a)
        if "z" in vs:
            env[vs["z"]] = real()
        if "theta" in vs:
            a = mp.mpf(rng.uniform(0.02, 3.12))
            env[vs["theta"]] = mp.cos(a) / mp.sin(a)
        if "eta" in vs:
            env[vs["eta"]] = mp.exp(mp.mpf(rng.gauss(0, 1.2)))
        if "t" in vs:
            env[vs["t"]] = real() * 2
            if d.get("t_case") == "nonneg":
                env[vs["t"]] = abs(env[vs["t"]])
            elif d.get("t_case") == "neg":
                env[vs["t"]] = -abs(env[vs["t"]]) - mp.mpf("0.01")
        if "tau" in vs:
            c = d.get("tau_case", "nonneg")
            env[vs["tau"]] = (pos() if c in ("nonneg", "pos") else (real() * 3 if c == "free" else -pos() * mp.mpf("0.3")))
    return env


def stored_from_env(ctx, env):
    """concrete stored coordinates (mpmath numbers) per input descriptor, in declaration order"""
    mp = S._mp()
    out = []
    for d in ctx.inputs:
        if "scalar" in d:
            if d["kind"] == "angle":
                key = ("angle", d["scalar"])
                if key in env:
                    out.append(env[key])
                else:
                    out.append(mp.atan2(env[d["vars"][1]], env[d["vars"][0]]))
            else:
                out.append(env[d["vars"]])
            continue
        vs = d["vars"]
        co = []
        if "x" in vs:
            co += [env[vs["x"]], env[vs["y"]]]
        if "rho" in vs:
            co += [env[vs["rho"]], mp.atan2(env[vs["phi"][1]], env[vs["phi"][0]])]
        if "z" in vs:
            co.append(env[vs["z"]])
        if "theta" in vs:
            co.append(mp.atan2(1, env[vs["theta"]]))
        if "eta" in vs:
            co.append(mp.log(env[vs["eta"]]))
        if "t" in vs:
            co.append(env[vs["t"]])
        if "tau" in vs:
            co.append(env[vs["tau"]])
        out.append(co)
    return out


def num_view(classes, coords):
    """numeric abstraction function (mpmath), mirrors `view`"""
    mp = S._mp()
    az = classes[0]
    if az is AzimuthalXY:
        X, Y = coords[0], coords[1]
        rho = mp.sqrt(X * X + Y * Y)
    else:
        rho = coords[0]
        X, Y = rho * mp.cos(coords[1]), rho * mp.sin(coords[1])
    out = [X, Y]
    if len(classes) >= 2:
        l = classes[1]
        if l is LongitudinalZ:
            Z = coords[2]
        elif l is LongitudinalTheta:
            Z = rho * mp.cos(coords[2]) / mp.sin(coords[2])
        else:
            Z = rho * mp.sinh(coords[2])
        out.append(Z)
    if len(classes) >= 3:
        if classes[2] is TemporalT:
            T = coords[3]
        else:
            tau = coords[3]
            s = tau * tau if tau >= 0 else -tau * tau
            T = mp.sqrt(max(s + out[0] ** 2 + out[1] ** 2 + out[2] ** 2, 0))
        out.append(T)
    return out
