"""Spec functions for C02: the documented mathematical definition of every operation, over Cartesian components.

Written from the documentation only (VectorProtocol* docstrings in _methods.py, docs/index.md, the Wikipedia Euler-angle
matrices with ROOT's argument order quoted in spatial/rotate_euler.py, ROOT Math::Quaternion) - never from the compute
functions.  Each spec is a function  spec(lib, s, v)  with  s: dict of scalar arguments,  v: list of Cartesian views
[X, Y, (Z), (T)] per vector operand; it runs both with the symbolic lib (obligations) and with mpmath (refuter, replay).
Vector results are returned as Cartesian components.
"""
from __future__ import annotations

from fractions import Fraction as Fr


def _sym(lib):
    from . import symreal as S
    return lib is S.LIB


def half(lib):
    return Fr(1, 2) if _sym(lib) else 0.5


def wrap(lib, a):
    """representative of the angle a in [-pi, pi)"""
    if _sym(lib):
        from . import symreal as S
        r = S.Ang(a.c, a.s, None)
        r.window = (Fr(-1), Fr(1))
        r.shift = None
        r.modparent = None
        par = a
        r.numval = lambda env, par=par: _wrapnum(par.numval(env))
        return r
    return _wrapnum(a)


def _wrapnum(a):
    import mpmath as mp
    return a - 2 * mp.pi * mp.floor((a + mp.pi) / (2 * mp.pi))


def rho2(v): return v[0] * v[0] + v[1] * v[1]
def mag2(v): return rho2(v) + v[2] * v[2]
def dot3(a, b): return a[0] * b[0] + a[1] * b[1] + a[2] * b[2]
def s2(v): return v[3] * v[3] - mag2(v)
def phi(lib, v): return lib.arctan2(v[1], v[0])
def eta(lib, v): return lib.arcsinh(v[2] / lib.sqrt(rho2(v)))           # eta = arcsinh(z / rho) = -ln tan(theta/2)
def rapidity(lib, v): return half(lib) * lib.log((v[3] + v[2]) / (v[3] - v[2]))


def matvec(m, v):
    n = len(v)
    return [sum((m[i][j] * v[j] for j in range(1, n)), m[i][0] * v[0]) for i in range(n)]


def Rx(lib, a): c, s = lib.cos(a), lib.sin(a); return [[1, 0, 0], [0, c, -s], [0, s, c]]
def Ry(lib, a): c, s = lib.cos(a), lib.sin(a); return [[c, 0, s], [0, 1, 0], [-s, 0, c]]
def Rz(lib, a): c, s = lib.cos(a), lib.sin(a); return [[c, -s, 0], [s, c, 0], [0, 0, 1]]


def boost3(lib, v, b):
    """active boost of the four-vector v by velocity b (|b| < 1): documented Lorentz transformation"""
    bp2 = b[0] * b[0] + b[1] * b[1] + b[2] * b[2]
    gamma = 1 / lib.sqrt(1 - bp2)
    bp = b[0] * v[0] + b[1] * v[1] + b[2] * v[2]
    # p' = p + [ gamma^2/(gamma+1) (b.p) + gamma T ] b ,  T' = gamma (T + b.p)
    k = gamma * gamma / (gamma + 1) * bp + gamma * v[3]
    return [v[0] + k * b[0], v[1] + k * b[1], v[2] + k * b[2], gamma * (v[3] + bp)]


def _axis_boost(lib, v, beta, gamma_signed, axis):
    """boost along a coordinate axis given either beta or the signed gamma (sign = direction)"""
    if beta is not None:
        g = 1 / lib.sqrt(1 - beta * beta)
        bg = beta * g
    else:
        g = lib.absolute(gamma_signed)
        bg = lib.copysign(lib.sqrt(gamma_signed * gamma_signed - 1), gamma_signed)
    out = list(v)
    out[axis] = g * v[axis] + bg * v[3]
    out[3] = g * v[3] + bg * v[axis]
    return out


def euler(lib, s, v, order):
    R = {"x": Rx, "y": Ry, "z": Rz}
    a, b, c = order
    # rotate_euler(phi, theta, psi, "abc") = R_a(-psi) R_b(-theta) R_c(-phi)   (uniform statement of the documented convention)
    w = matvec(R[c](lib, -s["phi"]), v[0][:3])
    w = matvec(R[b](lib, -s["theta"]), w)
    return matvec(R[a](lib, -s["psi"]), w)


def rodrigues(lib, s, v):
    ax, w = v[0], v[1]
    n = lib.sqrt(mag2(ax))
    u = [ax[0] / n, ax[1] / n, ax[2] / n]
    c, sn = lib.cos(s["angle"]), lib.sin(s["angle"])
    ud = dot3(u, w)
    cr = [u[1] * w[2] - u[2] * w[1], u[2] * w[0] - u[0] * w[2], u[0] * w[1] - u[1] * w[0]]
    return [w[i] * c + cr[i] * sn + u[i] * ud * (1 - c) for i in range(3)]


def quaternion(lib, s, v):
    """vector part of the Hamilton product q (0, w) conj(q), q = (u, i, j, k) of unit norm"""
    u, i, j, k = s["u"], s["i"], s["j"], s["k"]
    w = v[0]
    m = [[u * u + i * i - j * j - k * k, 2 * (i * j - u * k), 2 * (i * k + u * j)],
         [2 * (i * j + u * k), u * u - i * i + j * j - k * k, 2 * (j * k - u * i)],
         [2 * (i * k - u * j), 2 * (j * k + u * i), u * u - i * i - j * j + k * k]]
    return matvec(m, w[:3])


SPECS = {}


def spec(pk, name):
    def deco(f):
        SPECS[(pk, name)] = f
        return f
    return deco


# ---------------------------------------------------------------------------------------------- planar
spec("planar", "x")(lambda lib, s, v: v[0][0])
spec("planar", "y")(lambda lib, s, v: v[0][1])
spec("planar", "rho")(lambda lib, s, v: lib.sqrt(rho2(v[0])))
spec("planar", "rho2")(lambda lib, s, v: rho2(v[0]))
spec("planar", "phi")(lambda lib, s, v: phi(lib, v[0]))
spec("planar", "add")(lambda lib, s, v: [v[0][0] + v[1][0], v[0][1] + v[1][1]])
spec("planar", "subtract")(lambda lib, s, v: [v[0][0] - v[1][0], v[0][1] - v[1][1]])
spec("planar", "dot")(lambda lib, s, v: v[0][0] * v[1][0] + v[0][1] * v[1][1])
spec("planar", "scale")(lambda lib, s, v: [s["factor"] * v[0][0], s["factor"] * v[0][1]])
spec("planar", "unit")(lambda lib, s, v: [v[0][0] / lib.sqrt(rho2(v[0])), v[0][1] / lib.sqrt(rho2(v[0]))])
spec("planar", "deltaphi")(lambda lib, s, v: wrap(lib, phi(lib, v[0]) - phi(lib, v[1])))
spec("planar", "rotateZ")(lambda lib, s, v: matvec(Rz(lib, s["angle"]), v[0] + [0])[:2])
spec("planar", "transform2D")(lambda lib, s, v: [s["xx"] * v[0][0] + s["xy"] * v[0][1], s["yx"] * v[0][0] + s["yy"] * v[0][1]])
spec("planar", "equal")(lambda lib, s, v: (v[0][0] == v[1][0]) & (v[0][1] == v[1][1]))
spec("planar", "not_equal")(lambda lib, s, v: (v[0][0] != v[1][0]) | (v[0][1] != v[1][1]))
spec("planar", "is_parallel")(lambda lib, s, v: (v[0][0] * v[1][0] + v[0][1] * v[1][1]) > (1 - lib.absolute(s["tolerance"])) * lib.sqrt(rho2(v[0])) * lib.sqrt(rho2(v[1])))
spec("planar", "is_antiparallel")(lambda lib, s, v: (v[0][0] * v[1][0] + v[0][1] * v[1][1]) < (lib.absolute(s["tolerance"]) - 1) * lib.sqrt(rho2(v[0])) * lib.sqrt(rho2(v[1])))
spec("planar", "is_perpendicular")(lambda lib, s, v: lib.absolute(v[0][0] * v[1][0] + v[0][1] * v[1][1]) < lib.absolute(s["tolerance"]) * lib.sqrt(rho2(v[0])) * lib.sqrt(rho2(v[1])))

# ---------------------------------------------------------------------------------------------- spatial
spec("spatial", "z")(lambda lib, s, v: v[0][2])
spec("spatial", "theta")(lambda lib, s, v: lib.arccos(v[0][2] / lib.sqrt(mag2(v[0]))))
spec("spatial", "eta")(lambda lib, s, v: eta(lib, v[0]))
spec("spatial", "costheta")(lambda lib, s, v: v[0][2] / lib.sqrt(mag2(v[0])))
spec("spatial", "cottheta")(lambda lib, s, v: v[0][2] / lib.sqrt(rho2(v[0])))
spec("spatial", "mag")(lambda lib, s, v: lib.sqrt(mag2(v[0])))
spec("spatial", "mag2")(lambda lib, s, v: mag2(v[0]))
spec("spatial", "add")(lambda lib, s, v: [v[0][i] + v[1][i] for i in range(3)])
spec("spatial", "subtract")(lambda lib, s, v: [v[0][i] - v[1][i] for i in range(3)])
spec("spatial", "dot")(lambda lib, s, v: dot3(v[0], v[1]))
spec("spatial", "cross")(lambda lib, s, v: [v[0][1] * v[1][2] - v[0][2] * v[1][1], v[0][2] * v[1][0] - v[0][0] * v[1][2], v[0][0] * v[1][1] - v[0][1] * v[1][0]])
spec("spatial", "scale")(lambda lib, s, v: [s["factor"] * v[0][i] for i in range(3)])
spec("spatial", "unit")(lambda lib, s, v: [v[0][i] / lib.sqrt(mag2(v[0])) for i in range(3)])
spec("spatial", "deltaangle")(lambda lib, s, v: lib.arccos(dot3(v[0], v[1]) / (lib.sqrt(mag2(v[0])) * lib.sqrt(mag2(v[1])))))
spec("spatial", "deltaeta")(lambda lib, s, v: eta(lib, v[0]) - eta(lib, v[1]))
spec("spatial", "deltaR2")(lambda lib, s, v: wrap(lib, phi(lib, v[0]) - phi(lib, v[1])) ** 2 + (eta(lib, v[0]) - eta(lib, v[1])) ** 2)
spec("spatial", "deltaR")(lambda lib, s, v: lib.sqrt(wrap(lib, phi(lib, v[0]) - phi(lib, v[1])) ** 2 + (eta(lib, v[0]) - eta(lib, v[1])) ** 2))
spec("spatial", "rotateX")(lambda lib, s, v: matvec(Rx(lib, s["angle"]), v[0][:3]))
spec("spatial", "rotateY")(lambda lib, s, v: matvec(Ry(lib, s["angle"]), v[0][:3]))
spec("spatial", "rotate_axis")(rodrigues)
spec("spatial", "rotate_quaternion")(quaternion)
spec("spatial", "transform3D")(lambda lib, s, v: matvec([[s["xx"], s["xy"], s["xz"]], [s["yx"], s["yy"], s["yz"]], [s["zx"], s["zy"], s["zz"]]], v[0][:3]))
spec("spatial", "equal")(lambda lib, s, v: (v[0][0] == v[1][0]) & (v[0][1] == v[1][1]) & (v[0][2] == v[1][2]))
spec("spatial", "not_equal")(lambda lib, s, v: (v[0][0] != v[1][0]) | (v[0][1] != v[1][1]) | (v[0][2] != v[1][2]))
spec("spatial", "is_parallel")(lambda lib, s, v: dot3(v[0], v[1]) > (1 - lib.absolute(s["tolerance"])) * lib.sqrt(mag2(v[0])) * lib.sqrt(mag2(v[1])))
spec("spatial", "is_antiparallel")(lambda lib, s, v: dot3(v[0], v[1]) < (lib.absolute(s["tolerance"]) - 1) * lib.sqrt(mag2(v[0])) * lib.sqrt(mag2(v[1])))
spec("spatial", "is_perpendicular")(lambda lib, s, v: lib.absolute(dot3(v[0], v[1])) < lib.absolute(s["tolerance"]) * lib.sqrt(mag2(v[0])) * lib.sqrt(mag2(v[1])))
for _o in ("xzx", "xyx", "yxy", "yzy", "zyz", "zxz", "xzy", "xyz", "yxz", "yzx", "zyx", "zxy"):
    SPECS[("spatial", "rotate_euler", _o)] = (lambda lib, s, v, _o=_o: euler(lib, s, v, _o))

# ---------------------------------------------------------------------------------------------- lorentz
spec("lorentz", "t")(lambda lib, s, v: v[0][3])
spec("lorentz", "t2")(lambda lib, s, v: v[0][3] * v[0][3])
spec("lorentz", "tau2")(lambda lib, s, v: s2(v[0]))
spec("lorentz", "tau")(lambda lib, s, v: lib.copysign(lib.sqrt(lib.absolute(s2(v[0]))), s2(v[0])))
spec("lorentz", "beta")(lambda lib, s, v: lib.sqrt(mag2(v[0])) / v[0][3])
spec("lorentz", "gamma")(lambda lib, s, v: v[0][3] / lib.sqrt(s2(v[0])))
spec("lorentz", "rapidity")(lambda lib, s, v: rapidity(lib, v[0]))
spec("lorentz", "Et")(lambda lib, s, v: v[0][3] * lib.sqrt(rho2(v[0])) / lib.sqrt(mag2(v[0])))          # E sin(theta)
spec("lorentz", "Et2")(lambda lib, s, v: v[0][3] * v[0][3] * rho2(v[0]) / mag2(v[0]))
spec("lorentz", "Mt2")(lambda lib, s, v: v[0][3] * v[0][3] - v[0][2] * v[0][2])
spec("lorentz", "Mt")(lambda lib, s, v: lib.sqrt(v[0][3] * v[0][3] - v[0][2] * v[0][2]))
spec("lorentz", "dot")(lambda lib, s, v: v[0][3] * v[1][3] - dot3(v[0], v[1]))                         # metric (-,-,-,+)
spec("lorentz", "add")(lambda lib, s, v: [v[0][i] + v[1][i] for i in range(4)])
spec("lorentz", "subtract")(lambda lib, s, v: [v[0][i] - v[1][i] for i in range(4)])
spec("lorentz", "scale")(lambda lib, s, v: [s["factor"] * v[0][i] for i in range(4)])
spec("lorentz", "unit")(lambda lib, s, v: [v[0][i] / lib.sqrt(lib.absolute(s2(v[0]))) for i in range(4)])
spec("lorentz", "to_beta3")(lambda lib, s, v: [v[0][i] / v[0][3] for i in range(3)])
spec("lorentz", "boost_beta3")(lambda lib, s, v: boost3(lib, v[0], v[1]))
spec("lorentz", "boost_p4")(lambda lib, s, v: boost3(lib, v[0], [v[1][i] / v[1][3] for i in range(3)]))
spec("lorentz", "boostX_beta")(lambda lib, s, v: _axis_boost(lib, v[0], s["beta"], None, 0))
spec("lorentz", "boostY_beta")(lambda lib, s, v: _axis_boost(lib, v[0], s["beta"], None, 1))
spec("lorentz", "boostZ_beta")(lambda lib, s, v: _axis_boost(lib, v[0], s["beta"], None, 2))
spec("lorentz", "boostX_gamma")(lambda lib, s, v: _axis_boost(lib, v[0], None, s["gamma"], 0))
spec("lorentz", "boostY_gamma")(lambda lib, s, v: _axis_boost(lib, v[0], None, s["gamma"], 1))
spec("lorentz", "boostZ_gamma")(lambda lib, s, v: _axis_boost(lib, v[0], None, s["gamma"], 2))
spec("lorentz", "transform4D")(lambda lib, s, v: matvec([[s[a + b] for b in "xyzt"] for a in "xyzt"], v[0]))
spec("lorentz", "deltaRapidityPhi2")(lambda lib, s, v: wrap(lib, phi(lib, v[0]) - phi(lib, v[1])) ** 2 + (rapidity(lib, v[0]) - rapidity(lib, v[1])) ** 2)
spec("lorentz", "deltaRapidityPhi")(lambda lib, s, v: lib.sqrt(wrap(lib, phi(lib, v[0]) - phi(lib, v[1])) ** 2 + (rapidity(lib, v[0]) - rapidity(lib, v[1])) ** 2))
spec("lorentz", "equal")(lambda lib, s, v: (v[0][0] == v[1][0]) & (v[0][1] == v[1][1]) & (v[0][2] == v[1][2]) & (v[0][3] == v[1][3]))
spec("lorentz", "not_equal")(lambda lib, s, v: (v[0][0] != v[1][0]) | (v[0][1] != v[1][1]) | (v[0][2] != v[1][2]) | (v[0][3] != v[1][3]))
spec("lorentz", "is_timelike")(lambda lib, s, v: s2(v[0]) > lib.absolute(s["tolerance"]))
spec("lorentz", "is_spacelike")(lambda lib, s, v: s2(v[0]) < -lib.absolute(s["tolerance"]))
spec("lorentz", "is_lightlike")(lambda lib, s, v: lib.absolute(s2(v[0])) < lib.absolute(s["tolerance"]))


def isclose_spec(n):
    def f(lib, s, v):
        r = None
        for i in range(n):
            c = lib.isclose(v[0][i], v[1][i], s["rtol"], s["atol"], s["equal_nan"])
            r = c if r is None else (r & c)
        return r
    return f


SPECS[("planar", "isclose")] = isclose_spec(2)
SPECS[("spatial", "isclose")] = isclose_spec(3)
SPECS[("lorentz", "isclose")] = isclose_spec(4)
