"""Engine D lattice driver: runs the public API on NumPy / Awkward operands over an enumerated lattice and evaluates the
run-time contracts of C03 (values, structure, broadcasting), C05 (array result class/flavor/system), C16 (operands not
modified) and C18 (extra fields, structure, records).  Failures are tagged with the property they belong to."""
from __future__ import annotations

import math
import random

import numpy as np

import vector

from . import arrays as AR
from .arrays import ak

PLANAR_PROPS = ["x", "y", "rho", "rho2", "phi"]
SPATIAL_PROPS = ["z", "theta", "eta", "costheta", "cottheta", "mag", "mag2"]
LORENTZ_PROPS = ["t", "t2", "tau", "tau2", "beta", "gamma", "rapidity"]
MOM_PROPS = {2: ["px", "py", "pt", "pt2"], 3: ["pz", "p", "p2", "pseudorapidity"], 4: ["E", "energy", "M", "mass", "E2", "mass2", "Et", "Et2", "Mt", "Mt2", "transverse_energy", "transverse_mass"]}
ANGLE_VALUED = {"phi", "deltaphi"}
Q = (0.9, 0.1, -0.3, 0.3)
QN = tuple(q / math.sqrt(sum(x * x for x in Q)) for q in Q)
M2 = dict(xx=0.9, xy=-0.2, yx=0.4, yy=1.1)
M3 = {a + b: (1.0 if a == b else 0.0) + 0.1 * (i - j) for i, a in enumerate("xyz") for j, b in enumerate("xyz")}
M4 = {a + b: (1.0 if a == b else 0.0) + 0.05 * (i - 2 * j) for i, a in enumerate("xyzt") for j, b in enumerate("xyzt")}


def _fresh(v):
    """an independent copy of a vector of any backend (the in-place operator forms are applied to the copy, never to the lattice's operand)"""
    import copy as _copy
    if isinstance(v, np.ndarray):
        return v.copy()
    if ak is not None and isinstance(v, (ak.Array, ak.Record)):
        return _copy.deepcopy(v)
    return _copy.copy(v)


def _inplace(opf, other):
    """`w = copy(v); w <op>= other` - the value bound to w afterwards (NumPy / object vectors update in place, Awkward rebinds)"""
    def f(v, *b):
        w = _fresh(v)
        return opf(w, other if not b else b[0])
    return f


def unary_ops(d, mom):
    import operator
    ops = [(p, lambda v, p=p: getattr(v, p)) for p in PLANAR_PROPS]
    ops += [("v*=-1.5", _inplace(operator.imul, -1.5)), ("v/=-4", _inplace(operator.itruediv, -4.0)), ("v*=2.5", _inplace(operator.imul, 2.5))]
    ops += [("unit", lambda v: v.unit()), ("scale(1.7)", lambda v: v.scale(1.7)), ("scale(-0.6)", lambda v: v.scale(-0.6)), ("scale2D(2)", lambda v: v.scale2D(2.0)),
            ("neg2D", lambda v: v.neg2D), ("rotateZ", lambda v: v.rotateZ(0.3)), ("transform2D", lambda v: v.transform2D(M2)),
            ("-v", lambda v: -v), ("+v", lambda v: +v), ("v*2.5", lambda v: v * 2.5), ("1.5*v", lambda v: 1.5 * v), ("v/4", lambda v: v / 4.0),
            ("equal(self)", lambda v: v.equal(v)), ("isclose(self)", lambda v: v.isclose(v)), ("v==v", lambda v: v == v), ("v!=v", lambda v: v != v),
            ("numpy.isclose(self)", lambda v: np.isclose(v, v)), ("numpy.equal(self)", lambda v: np.equal(v, v)), ("numpy.not_equal(self)", lambda v: np.not_equal(v, v)),
            ("isclose(nearby,loose)", lambda v: v.isclose(v.scale(1.0000001), rtol=1e-3, atol=1e-3)), ("isclose(nearby,tight)", lambda v: v.isclose(v.scale(1.0000001), rtol=1e-12, atol=1e-12)),
            ("numpy.isclose(nearby,loose)", lambda v: np.isclose(v, v.scale(1.0000001), rtol=1e-3, atol=1e-3)),
            ("numpy.isclose(nearby,tight)", lambda v: np.isclose(v, v.scale(1.0000001), rtol=1e-12, atol=1e-12)), ("equal(nearby)", lambda v: v.equal(v.scale(1.0000001))),
            ("allclose(nearby,atol-only)", lambda v: v.allclose(v.scale(1.0000001), rtol=0.0, atol=1e-3)), ("allclose(nearby,rtol-only)", lambda v: v.allclose(v.scale(1.0000001), rtol=1e-3, atol=0.0)),
            ("allclose(nearby,tight)", lambda v: v.allclose(v.scale(1.0000001), rtol=1e-12, atol=1e-12)), ("allclose(self)", lambda v: v.allclose(v)),
            ("abs", lambda v: abs(v)), ("v**2", lambda v: v ** 2), ("v**3", lambda v: v ** 3), ("numpy.sqrt", lambda v: np.sqrt(v)), ("numpy.cbrt", lambda v: np.cbrt(v)),
            ("numpy.power(v,3)", lambda v: np.power(v, 3)), ("numpy.absolute", lambda v: np.absolute(v)), ("numpy.square", lambda v: np.square(v)),
            ("to_Vector2D", lambda v: v.to_Vector2D()), ("to_Vector3D", lambda v: v.to_Vector3D()), ("to_Vector4D", lambda v: v.to_Vector4D()),
            ("to_2D", lambda v: v.to_2D()), ("to_3D", lambda v: v.to_3D()), ("to_4D", lambda v: v.to_4D()),
            ("to_xy", lambda v: v.to_xy()), ("to_rhophi", lambda v: v.to_rhophi()), ("to_xyzt(z,t)", lambda v: v.to_xyzt(z=0.7, t=9.0)),
            ("to_rhophietatau(eta,tau)", lambda v: v.to_rhophietatau(eta=0.4, tau=1.3)), ("to_xytheta(theta)", lambda v: v.to_xytheta(theta=1.1))]
    if d == 2:
        ops += [("to_Vector3D(eta)", lambda v: v.to_Vector3D(eta=0.3)), ("to_Vector4D(theta,mass)", lambda v: v.to_Vector4D(theta=1.2, mass=2.0)),
                ("to_Vector4D(z,t)", lambda v: v.to_Vector4D(z=3.0, t=10.0))]
    if d == 3:
        ops += [("to_Vector4D(t)", lambda v: v.to_Vector4D(t=12.0)), ("to_Vector4D(tau)", lambda v: v.to_Vector4D(tau=1.5))]
    if mom:
        ops += [(p, lambda v, p=p: getattr(v, p)) for k in range(2, d + 1) for p in MOM_PROPS[k]]
        ops += [("to_pxpy", lambda v: v.to_pxpy()), ("to_ptphietamass(eta,mass)", lambda v: v.to_ptphietamass(eta=0.2, mass=1.1))]
    if d >= 3:
        ops += [(p, lambda v, p=p: getattr(v, p)) for p in SPATIAL_PROPS]
        ops += [("scale3D(-2)", lambda v: v.scale3D(-2.0)), ("neg3D", lambda v: v.neg3D), ("rotateX", lambda v: v.rotateX(0.4)), ("rotateY", lambda v: v.rotateY(-0.7)),
                ("rotate_euler(zyx)", lambda v: v.rotate_euler(0.1, 0.2, 0.3, "zyx")), ("rotate_euler(XZX)", lambda v: v.rotate_euler(0.5, -0.2, 0.9, "XZX")),
                ("rotate_nautical", lambda v: v.rotate_nautical(0.1, 0.2, 0.3)), ("rotate_quaternion", lambda v: v.rotate_quaternion(*QN)),
                ("transform3D", lambda v: v.transform3D(M3)), ("to_xyz", lambda v: v.to_xyz()), ("to_rhophieta", lambda v: v.to_rhophieta()), ("to_xytheta", lambda v: v.to_xytheta())]
    if d == 4:
        ops += [(p, lambda v, p=p: getattr(v, p)) for p in LORENTZ_PROPS]
        ops += [("scale4D(2)", lambda v: v.scale4D(2.0)), ("neg4D", lambda v: v.neg4D), ("boostX(beta)", lambda v: v.boostX(beta=0.3)), ("boostY(gamma)", lambda v: v.boostY(gamma=-1.2)),
                ("boostZ(beta)", lambda v: v.boostZ(beta=-0.4)), ("to_beta3", lambda v: v.to_beta3()), ("transform4D", lambda v: v.transform4D(M4)),
                ("is_timelike", lambda v: v.is_timelike(0.01)), ("is_spacelike", lambda v: v.is_spacelike(0.01)), ("is_lightlike", lambda v: v.is_lightlike(0.01)),
                ("to_xyzt", lambda v: v.to_xyzt()), ("to_rhophithetatau", lambda v: v.to_rhophithetatau()), ("to_xyetat", lambda v: v.to_xyetat())]
    return ops


def binary_ops(d, d2):
    ops = [("deltaphi", lambda a, b: a.deltaphi(b)), ("like", lambda a, b: a.like(b))]
    if d == d2:
        ops += [("add", lambda a, b: a.add(b)), ("subtract", lambda a, b: a.subtract(b)), ("a+b", lambda a, b: a + b), ("a-b", lambda a, b: a - b),
                ("dot", lambda a, b: a.dot(b)), ("a@b", lambda a, b: a @ b), ("equal", lambda a, b: a.equal(b)), ("a==b", lambda a, b: a == b), ("a!=b", lambda a, b: a != b),
                ("not_equal", lambda a, b: a.not_equal(b)), ("isclose", lambda a, b: a.isclose(b, rtol=1e-3, atol=1e-3)),
                ("numpy.equal", lambda a, b: np.equal(a, b)), ("numpy.not_equal", lambda a, b: np.not_equal(a, b)),
                ("numpy.isclose", lambda a, b: np.isclose(a, b, rtol=1e-3, atol=1e-3)), ("numpy.allclose", lambda a, b: np.allclose(a, b, rtol=1e-3, atol=1e-3)),
                ("allclose", lambda a, b: a.allclose(b, rtol=1e-3, atol=1e-3))]
        if d <= 3:
            ops += [("is_parallel", lambda a, b: a.is_parallel(b, 0.3)), ("is_antiparallel", lambda a, b: a.is_antiparallel(b, 0.3)), ("is_perpendicular", lambda a, b: a.is_perpendicular(b, 0.3))]
    if d >= 3 and d2 >= 3:
        ops += [("deltaeta", lambda a, b: a.deltaeta(b)), ("deltaR", lambda a, b: a.deltaR(b)), ("deltaR2", lambda a, b: a.deltaR2(b)), ("deltaangle", lambda a, b: a.deltaangle(b))]
    if d == 3 and d2 == 3:
        ops += [("cross", lambda a, b: a.cross(b))]
    if d >= 3 and d2 == 3:
        ops += [("rotate_axis", lambda a, b: a.rotate_axis(b, 0.8))]
    if d == 4 and d2 == 4:
        ops += [("deltaRapidityPhi", lambda a, b: a.deltaRapidityPhi(b)), ("boost_p4", lambda a, b: a.boost_p4(b)), ("boost(4D)", lambda a, b: a.boost(b)),
                ("boostCM_of_p4", lambda a, b: a.boostCM_of_p4(b)), ("boostCM_of", lambda a, b: a.boostCM_of(b))]
    if d == 4 and d2 == 3:
        ops += [("boost_beta3", lambda a, b: a.boost_beta3(b.scale(0.12))), ("boost(3D)", lambda a, b: a.boost(b.scale(0.12)))]
    return ops


# the object backend does not implement the NumPy *function* forms of the comparisons (numpy.isclose(obj, obj) raises inside NumPy);
# the reference for them is the method form, with which the statement (C12) requires them to agree
OBJECT_FORM = {
    "numpy.isclose(self)": lambda v: v.isclose(v), "numpy.equal(self)": lambda v: v.equal(v), "numpy.not_equal(self)": lambda v: v.not_equal(v),
    "numpy.isclose(nearby,loose)": lambda v: v.isclose(v.scale(1.0000001), rtol=1e-3, atol=1e-3),
    "numpy.isclose(nearby,tight)": lambda v: v.isclose(v.scale(1.0000001), rtol=1e-12, atol=1e-12),
    "numpy.equal": lambda a, b: a.equal(b), "numpy.not_equal": lambda a, b: a.not_equal(b),
    "numpy.isclose": lambda a, b: a.isclose(b, rtol=1e-3, atol=1e-3),
    "allclose": lambda a, b: a.isclose(b, rtol=1e-3, atol=1e-3), "numpy.allclose": lambda a, b: a.isclose(b, rtol=1e-3, atol=1e-3),
    "allclose(nearby,atol-only)": lambda v: v.isclose(v.scale(1.0000001), rtol=0.0, atol=1e-3),
    "allclose(nearby,rtol-only)": lambda v: v.isclose(v.scale(1.0000001), rtol=1e-3, atol=0.0),
    "allclose(nearby,tight)": lambda v: v.isclose(v.scale(1.0000001), rtol=1e-12, atol=1e-12),
    "allclose(self)": lambda v: v.isclose(v),
}
WITNESS = {}           # for empty operands: the object-backend result of the same operation on one sample vector (tells the expected kind of result)
OP_FILTER = None        # optional predicate on operation names: restricts the lattice to the operations of one property (set before the pool forks)


class Fails:
    def __init__(self):
        self.n = 0
        self.bytag = {}
        self.bad = []          # (property, obligation id, detail)

    def check(self, prop, oid, ok, detail=None):
        self.n += 1
        self.bytag[prop] = self.bytag.get(prop, 0) + 1
        if not ok:
            self.bad.append((prop, f"{prop}/{oid}", detail))


def describe_vec(o):
    return dict(sys=AR.sysof(o), mom=isinstance(o, vector.Momentum), coords={n: getattr(o, n) for n in AR.names_of(AR.sysof(o))})


def compare(F, tag, res, expected, opname, layout_is_array):
    """res: actual result (array backend); expected: nested structure of object-backend results"""
    def first(e):
        if isinstance(e, list):
            for x in e:
                r = first(x)
                if r is not None:
                    return r
            return None
        return e
    f = first(expected)
    if f is None:
        # no element to compare (empty array / only missing values): the type-level contract remains - learn the kind of result from a witness
        w = WITNESS.get("result")
        if w is None:
            return
        if isinstance(w, vector.Vector):
            okv = isinstance(res, vector.Vector)
            F.check("C03", f"empty-operand/vector-result/{tag}", okv, type(res).__name__)
            if okv:
                F.check("C05", f"empty-operand/array-result-system/{tag}", AR.sysof(res) == AR.sysof(w), dict(got=AR.sysof(res), expected=AR.sysof(w)))
                F.check("C05", f"empty-operand/array-result-flavor/{tag}", isinstance(res, vector.Momentum) == isinstance(w, vector.Momentum), type(res).__name__)
                try:
                    F.check("C03", f"empty-operand/length/{tag}", len(res) == len(expected), dict(got=len(res), expected=len(expected)))
                except Exception:
                    pass
        elif opname.startswith(("allclose", "numpy.allclose")):
            F.check("C03", f"empty-operand/allclose-of-nothing-is-true/{tag}", isinstance(res, (bool, np.bool_)) and bool(res) is True, repr(res))
        else:
            try:
                F.check("C03", f"empty-operand/scalar-result-length/{tag}", not isinstance(res, vector.Vector) and len(res) == len(expected), type(res).__name__)
            except Exception as e:
                F.check("C03", f"empty-operand/scalar-result-length/{tag}", False, f"{type(e).__name__}: {str(e)[:100]}")
        return
    if isinstance(f, vector.Vector):
        if not isinstance(res, vector.Vector):
            F.check("C03", f"vector-result/{tag}", False, f"result {type(res).__name__} is not a vector")
            return
        s = AR.sysof(f)
        F.check("C05", f"array-result-system/{tag}", AR.sysof(res) == s, dict(got=AR.sysof(res), expected=s))
        F.check("C05", f"array-result-flavor/{tag}", isinstance(res, vector.Momentum) == isinstance(f, vector.Momentum), dict(got=type(res).__name__, expected=type(f).__name__))
        for n in AR.names_of(s):
            exp_n = AR.struct_map_obj(expected, lambda o: getattr(o, n))
            try:
                got_n = AR.to_nested(getattr(res, n))
            except Exception as e:
                F.check("C03", f"value/{n}/{tag}", False, f"{type(e).__name__}: {str(e)[:120]}")
                continue
            ok = AR.ang_close(got_n, exp_n) if n == "phi" else AR.close(got_n, exp_n)
            F.check("C03", f"value/{n}/{tag}", ok, dict(got=str(got_n)[:160], expected=str(exp_n)[:160]))
    elif opname.startswith(("allclose", "numpy.allclose")):
        # arr.allclose(...) is the conjunction of the element-wise isclose of the object backend
        leaves = []

        def walk(e):
            if isinstance(e, list):
                for x in e:
                    walk(x)
            elif e is not None:
                leaves.append(bool(e))
        walk(expected)
        F.check("C03", f"value/{tag}", isinstance(res, (bool, np.bool_)) and bool(res) == all(leaves), dict(got=str(res)[:80], expected=all(leaves)))
    else:
        got = AR.to_nested(res)
        exp = AR.struct_map_obj(expected, lambda o: o.item() if isinstance(o, np.generic) else o)
        ok = AR.ang_close(got, exp) if opname in ANGLE_VALUED else AR.close(got, exp)
        F.check("C03", f"value/{tag}", ok, dict(got=str(got)[:160], expected=str(exp)[:160]))


def _struct_map_obj(struct, f):
    if struct is None:
        return None
    if isinstance(struct, list):
        return [_struct_map_obj(s, f) for s in struct]
    return f(struct)


AR.struct_map_obj = _struct_map_obj


def objs(struct, system, mom):
    return AR.struct_map(struct, lambda e: AR.obj_of(system, mom, e))


def run_unary(F, system, mom, layouts, seed, extras_layouts=("ak-jagged", "ak-record", "ak-flat", "ak-rawzip", "ak-regular", "ak-record-at2")):
    d = len(system) + 1
    for layout in layouts:
        if layout.endswith("-spacelike") and d < 4:
            continue
        rng = random.Random(hash((seed, system, mom, layout)) & 0xFFFFFFF)
        ext = layout in extras_layouts
        if ext and layout in ("ak-jagged", "ak-record"):
            ext = "rich"
        v, struct = AR.build(layout, system, mom, rng, extras=ext)
        O = objs(struct, system, mom)
        for name, op in unary_ops(d, mom):
            if OP_FILTER is not None and not OP_FILTER(name):
                continue
            if layout.endswith("-spacelike") and name in ("numpy.sqrt", "numpy.cbrt"):
                continue        # fractional powers of a negative tau^2: outside the domain of the definition (Python floats give complex numbers, NumPy gives NaN)
            if layout.startswith("ak") and name in ("v*=-1.5", "v/=-4", "v*=2.5"):
                continue        # Awkward arrays are immutable: augmented assignment is not part of their interface (Awkward raises TypeError)
            if layout.startswith("ak-record") and name.startswith("allclose"):
                continue        # allclose is a method of arrays; a record is a single vector
            if layout.startswith("ak") and name.startswith("numpy.isclose"):
                continue        # probed separately (known finding C12 'numpy.isclose on Awkward vector arrays is Awkward's field-wise isclose')
            if layout.startswith("ak-record") and name in RECORD_OPERATOR_OPS:
                continue        # probed separately (probes(): known finding C18 'operators on records')
            tag = f"{name}[{','.join(system)}|{'mom' if mom else 'gen'}|{layout}]"
            snap = AR.snapshot(v)
            try:
                with np.errstate(all="ignore"):
                    res = op(v)
            except Exception as e:
                # is the operation defined on the object backend? then it must be defined here too
                try:
                    _struct_map_obj(O, OBJECT_FORM.get(name, op))
                    F.check("C03", f"defined/{tag}", False, f"{type(e).__name__}: {str(e)[:160]}")
                except Exception:
                    pass
                continue
            F.check("C16", f"operand-unchanged/{tag}", AR.snapshot(v) == snap, "operand modified by the call")
            try:
                with np.errstate(all="ignore"):
                    expected = _struct_map_obj(O, OBJECT_FORM.get(name, op))
            except Exception as e:
                F.check("C03", f"object-reference/{tag}", False, f"object backend raises {type(e).__name__}: {e}")
                continue
            WITNESS.pop("result", None)
            if layout in ("np(0)", "ak-empty"):
                try:
                    with np.errstate(all="ignore"):
                        WITNESS["result"] = OBJECT_FORM.get(name, op)(AR.obj_of(system, mom, AR.one(system, rng)))
                except Exception:
                    pass
            compare(F, tag, res, expected, name, True)
            WITNESS.pop("result", None)
            if ak is not None and isinstance(res, (ak.Array, ak.Record)) and isinstance(res, vector.Vector) and isinstance(v, (ak.Array, ak.Record)):
                # C18: one-vector operations carry every non-coordinate field through unchanged; structure preserved
                for fld in {"ak-record-hits": ("hits",), "ak-record-label": ("label",)}.get(layout, ()):
                    ok = fld in ak.fields(res) and ak.to_list(res[fld]) == ak.to_list(v[fld])
                    F.check("C18", f"extra-field-carried/{fld}/{tag}", ok, dict(fields=ak.fields(res), got=str(ak.to_list(res[fld]))[:60] if fld in ak.fields(res) else None))
                if ext:
                    for fld in ("charge", "weight") + (("hits", "label") if ext == "rich" else ()):
                        ok = fld in ak.fields(res) and ak.to_list(res[fld]) == ak.to_list(v[fld])
                        F.check("C18", f"extra-field-carried/{fld}/{tag}", ok, dict(fields=ak.fields(res)))
                F.check("C18", f"structure-preserved/{tag}", _shape(res) == _shape(v), dict(got=_shape(res), expected=_shape(v)))
                F.check("C18", f"list-types-preserved/{tag}", _listtype(res) == _listtype(v), dict(got=str(ak.type(res))[:100], expected=str(ak.type(v))[:100]))
                # every field of the result that is spelled like a coordinate holds the *result's* coordinate (no stale operand column)
                from vector._methods import _repr_momentum_to_generic as _G
                for fld in ak.fields(res):
                    g = _G.get(fld, fld)
                    if g in ("x", "y", "rho", "phi", "z", "theta", "eta", "t", "tau"):
                        try:
                            need = 3 if g in ("z", "theta", "eta") else 4 if g in ("t", "tau") else 2
                            # a coordinate column beyond the result's own dimension is a stale operand column (Awkward would serve it as a plain field)
                            same = vector.dim(res) >= need and AR.close(ak.to_list(res[fld]), ak.to_list(getattr(res, g)), 0, 0)
                        except Exception as e:
                            same = False
                        F.check("C18", f"coordinate-field-is-current/{fld}/{tag}", same, dict(fields=ak.fields(res)))
                if isinstance(v, ak.Record):
                    F.check("C18", f"record-result-behaves-as-vector/{tag}", isinstance(res, ak.Record) and isinstance(res, vector.Vector), type(res).__name__)
            elif isinstance(res, np.ndarray) and isinstance(v, np.ndarray) and isinstance(res, vector.Vector):
                F.check("C03", f"shape-preserved/{tag}", res.shape == v.shape, dict(got=res.shape, expected=v.shape))
        # scalar arguments given as arrays broadcast element by element
        if layout in ("np(3)", "ak-flat"):
            ks = [1.5, -2.0, 0.25]
            karr = np.array(ks) if layout == "np(3)" else ak.Array(ks)
            tag = f"scale(array)[{','.join(system)}|{'mom' if mom else 'gen'}|{layout}]"
            try:
                with np.errstate(all="ignore"):
                    res = v.scale(karr)
                    expected = [o.scale(k) for o, k in zip(O, ks)]
                compare(F, tag, res, expected, "scale", True)
            except Exception as e:
                F.check("C03", f"defined/{tag}", False, f"{type(e).__name__}: {str(e)[:160]}")


def _listtype(a):
    """the list part of an Awkward type: '2 * 3 * ', '3 * var * ', '3 * option[var * ' ... (regular vs variable-length vs option-typed dimensions)"""
    import re
    # where option-ness is recorded (on the record or on its fields) is not part of the list structure: missing positions are compared by _shape
    return re.split(r"(?:Vector|Momentum)\dD|\{|float|int|bool", str(ak.type(a)))[0].replace("?", "").replace("option[", "")


def _shape(a):
    """list structure and missing-value positions (values replaced by a marker)"""
    def walk(x):
        if x is None:
            return None
        if isinstance(x, list):
            return [walk(y) for y in x]
        return "E"
    if isinstance(a, ak.Record):
        return "E"
    fields = ak.fields(a)
    return walk(ak.to_list(a[fields[0]])) if fields else walk(ak.to_list(a))


# operations that *combine* two vectors on an equal footing (the axis of rotate_axis and the booster of a boost are parameters
# of a one-vector operation: the boosted / rotated particle keeps its extra fields)
TWO_VECTOR_OPS = {"add", "subtract", "a+b", "a-b", "cross"}
PRIORITY = {"object": 0, "np": 1, "ak": 2}


def prio(layout):
    return PRIORITY["object" if layout == "object" else layout[:2]]


RECORD_OPERATOR_OPS = {"v==v", "v!=v", "numpy.equal(self)", "numpy.not_equal(self)", "abs", "v**2", "v**3", "numpy.sqrt", "numpy.cbrt", "numpy.power(v,3)", "numpy.absolute", "numpy.square"}


PAIRINGS = [("np(3)", "np(3)"), ("ak-jagged", "ak-jagged"), ("np(3)", "object"), ("object", "np(3)"), ("ak-jagged", "object"), ("object", "ak-jagged"),
            ("ak-flat", "np(3)"), ("np(3)", "ak-flat"), ("ak-record", "ak-record"), ("ak-rawzip", "ak-rawzip"), ("np(3,1)", "np(1,3)"), ("ak-record-at2", "ak-record-at2"), ("object", "ak-record-at2"), ("ak-record", "object"), ("ak-option", "ak-option"), ("np(2,2)", "np(2,2)"),
            ("ak-nested", "object")]


def run_binary(F, s1, s2, m1, m2, pairings, seed):
    d, d2 = len(s1) + 1, len(s2) + 1
    for l1, l2 in pairings:
        rng = random.Random(hash((seed, s1, s2, m1, m2, l1, l2)) & 0xFFFFFFF)
        a, sa = AR.build(l1, s1, m1, rng, extras=(l1 in ("ak-jagged", "ak-record", "ak-record-at2")))
        outer = (l1, l2) == ("np(3,1)", "np(1,3)")
        if AR.nest(l1) == AR.nest(l2) or "E" in (AR.nest(l1), AR.nest(l2)) or outer:
            b, sb = AR.build(l2, s2, m2, rng, extras=(l2 in ("ak-jagged", "ak-record-at2")))
        else:
            continue
        OA, OB = objs(sa, s1, m1), objs(sb, s2, m2)
        for name, op in binary_ops(d, d2):
            if OP_FILTER is not None and not OP_FILTER(name):
                continue
            if name == "rotate_axis" and prio(l2) > prio(l1):
                continue        # an axis of a higher-priority backend cannot be broadcast into the lower-priority result (by design)
            if name == "a@b" and (l1.startswith("ak") or l2.startswith("ak")):
                continue        # probed separately (known finding C05 '@ on Awkward')
            if name in ("a==b", "a!=b", "numpy.equal", "numpy.not_equal") and any(x.startswith("ak-record") for x in (l1, l2)):
                continue        # probed separately (known finding C18 'operators on records')
            if name == "like" and AR.nest(l1) != AR.nest(l2) and l2 != "object":
                continue        # like() is not a broadcasting operation: the result has the structure of its first operand only
            if name == "allclose" and (l1 == "object" or l1.startswith("ak-record")):
                continue        # allclose is a method of arrays only
            if name in ("numpy.isclose", "numpy.allclose") and (l1.startswith("ak") or l2.startswith("ak")):
                continue        # probed separately (known finding C12 'numpy.isclose on Awkward vector arrays')
            if name in ("a+b", "a-b") and {l1[:2], l2[:2]} == {"ak", "np"}:
                continue        # probed separately (known finding C05 'operator between Awkward and NumPy momentum arrays')
            tag = f"{name}[{','.join(s1)}|{'mom' if m1 else 'gen'}|{l1}]x[{','.join(s2)}|{'mom' if m2 else 'gen'}|{l2}]"
            snaps = (AR.snapshot(a), AR.snapshot(b))
            try:
                with np.errstate(all="ignore"):
                    oop = OBJECT_FORM.get(name, op)
                    if outer:
                        # NumPy broadcasting of shape (3, 1) against (1, 3): element [i][j] pairs a[i][0] with b[0][j]
                        expected = [[oop(AR.obj_of(s1, m1, ra[0]), AR.obj_of(s2, m2, cb)) for cb in sb[0]] for ra in sa]
                    else:
                        expected = AR.struct_zip(sa, sb, lambda x, y: oop(AR.obj_of(s1, m1, x), AR.obj_of(s2, m2, y)))
            except Exception:
                continue
            try:
                with np.errstate(all="ignore"):
                    res = op(a, b)
            except Exception as e:
                F.check("C03", f"defined/{tag}", False, f"{type(e).__name__}: {str(e)[:160]}")
                # C05: the object form of this call returns a vector / number, so the rules give this call a result backend, flavor and dimension
                F.check("C05", f"defined/{tag}", False, f"{type(e).__name__}: {str(e)[:160]}")
                continue
            F.check("C16", f"operands-unchanged/{tag}", (AR.snapshot(a), AR.snapshot(b)) == snaps, "an operand was modified by the call")
            compare(F, tag, res, expected, name, True)
            if ak is not None and isinstance(res, (ak.Array, ak.Record)) and isinstance(res, vector.Vector) and name in TWO_VECTOR_OPS:
                # C18: operations combining two vectors return only coordinates
                extra = [f for f in ak.fields(res) if f not in AR.COORDS]
                F.check("C18", f"two-vector-result-has-only-coordinates/{tag}", not extra, dict(fields=ak.fields(res)))
                ref = a if isinstance(a, ak.Array) else (b if isinstance(b, ak.Array) else None)
                if ref is not None and isinstance(res, ak.Array):
                    F.check("C18", f"structure-preserved/{tag}", _shape(res) == _shape(ref), dict(got=_shape(res), expected=_shape(ref)))
            if ak is not None and name not in TWO_VECTOR_OPS and isinstance(res, (ak.Array, ak.Record)) and isinstance(res, vector.Vector) and l1 in ("ak-jagged", "ak-record", "ak-record-at2"):
                F.check("C18", f"extra-field-carried/charge/{tag}", "charge" in ak.fields(res), dict(fields=ak.fields(res)))


def unary_shard(args):
    system, mom, layouts, seed = args
    F = Fails()
    run_unary(F, system, mom, layouts, seed)
    return F.n, F.bad, F.bytag


def binary_shard(args):
    s1, pairs, pairings, seed = args
    F = Fails()
    for s2, m1, m2 in pairs:
        run_binary(F, s1, s2, m1, m2, pairings, seed)
    return F.n, F.bad, F.bytag


def lattice(tier, seed):
    """job lists for the pool"""
    layouts = [l for l in AR.NUMPY_LAYOUTS if l != "np()"] + (AR.AWK_LAYOUTS if ak is not None else [])      # 0-d arrays: probes()
    ujobs = [(s, m, layouts, seed) for s in AR.systems() for m in (False, True)]
    bjobs = []
    allsys = list(AR.systems())
    for i, s1 in enumerate(allsys):
        pairs = []
        for j, s2 in enumerate(allsys):
            if len(s1) == len(s2) or (len(s1), len(s2)) in ((4, 3), (3, 2), (2, 4)):
                k = (i + j) % 4
                flav = [(False, False), (True, False), (False, True), (True, True)]
                if tier == "thorough":
                    pairs += [(s2, a, b) for a, b in flav]
                else:
                    pairs.append((s2,) + flav[k])
        pairings = PAIRINGS if tier == "thorough" else PAIRINGS[:13]
        if ak is None:
            pairings = [p for p in pairings if not any(x.startswith("ak") for x in p)]
        bjobs.append((s1, pairs, pairings, seed))
    return ujobs, bjobs


def probes():
    """explicit probes of corners kept out of the lattice because they are listed (or were once listed) as known findings;
    returns [(property, obligation id, holds, detail)]"""
    out = []

    def probe(prop, oid, f):
        try:
            with np.errstate(all="ignore"):
                r = f()
            out.append((prop, f"{prop}/probe/{oid}", bool(r), None if r else "contract evaluated to False"))
        except Exception as e:
            out.append((prop, f"{prop}/probe/{oid}", False, f"{type(e).__name__}: {str(e)[:160]}"))
    o2, o4 = vector.obj(x=1.0, y=2.0), vector.obj(px=1.0, py=2.0, pz=3.0, mass=1.0)
    n2 = vector.array({"x": [1.0, 2.0], "y": [3.0, 4.0]})
    m2 = vector.array({"pt": [1.0, 2.0], "phi": [0.1, 0.2]})
    z2 = vector.array({"x": np.float64(1.0), "y": np.float64(2.0)})
    probe("C03", "zero-dimensional-numpy-array/scale-keeps-shape", lambda: z2.scale(2.0).shape == () and AR.close(float(z2.scale(2.0).x), 2.0))
    probe("C03", "zero-dimensional-numpy-array/to_Vector3D-defined", lambda: AR.close(float(z2.to_Vector3D(z=1.0).z), 1.0))
    if ak is not None:
        a2 = vector.Array([{"x": 1.0, "y": 2.0}, {"x": 3.0, "y": 4.0}])
        a4 = vector.Array([[{"x": 1.0, "y": 2.0, "z": 3.0, "t": 10.0}], []])
        rec = vector.Array([{"x": 1.0, "y": 2.0}])[0]
        probe("C05", "matmul-operator-on-awkward-array", lambda: AR.close(ak.to_list(a2 @ a2), ak.to_list(a2.dot(a2))))
        probe("C05", "matmul-operator-awkward-with-object", lambda: AR.close(ak.to_list(a2 @ o2), ak.to_list(a2.dot(o2))))
        probe("C05", "operator-add-awkward-generic-with-numpy-momentum-keeps-flavor", lambda: isinstance(a2 + m2, vector.Momentum) and isinstance(m2 + a2, vector.Momentum))
        probe("C05", "method-add-awkward-generic-with-numpy-momentum-keeps-flavor", lambda: isinstance(a2.add(m2), vector.Momentum) and isinstance(m2.add(a2), vector.Momentum))
        for _p in ("C03", "C12"):
            probe(_p, "numpy-isclose-on-awkward-array-is-the-vector-isclose", lambda: ak.to_list(np.isclose(a2, a2)) == ak.to_list(a2.isclose(a2)) == [True, True])
        probe("C18", "record-operators/eq", lambda: bool(rec == rec) is True and bool(rec != rec) is False)
        probe("C18", "record-operators/abs-and-power", lambda: AR.close(abs(rec), rec.rho) and AR.close(rec ** 2, rec.rho2) and AR.close(np.sqrt(rec), rec.rho ** 0.5))
        probe("C03", "tau-stored-object-boosted-by-awkward-booster", lambda: AR.close(ak.to_list(o4.boost_p4(a4).t), [[o4.boost_p4(vector.obj(x=1.0, y=2.0, z=3.0, t=10.0)).t], []]))
    # rotate_axis: the axis is a parameter.  An object vector rotated about an *array of axes* (NumPy / Awkward - a higher-priority backend kept out of the
    # pairing lattice) is the object vector's own kind of result: element i equals the rotation about axis i, the stored t / tau is kept
    axes = [dict(x=0.0, y=0.0, z=1.0), dict(x=1.0, y=0.5, z=-2.0), dict(x=-1.0, y=2.0, z=0.25)]
    ax_makers = [("numpy", lambda: vector.array({k: np.array([a[k] for a in axes]) for k in "xyz"}))]
    if ak is not None:
        ax_makers.append(("awkward", lambda: vector.Array(axes)))
    subjects = [("xyz", vector.obj(x=1.0, y=-2.0, z=3.0), ()), ("xyzt", vector.obj(x=1.0, y=-2.0, z=3.0, t=10.0), ("t",)),
                ("ptphietamass", vector.obj(pt=2.0, phi=0.4, eta=-0.3, mass=1.5), ("tau",)), ("rhophithetatau", vector.obj(rho=2.0, phi=-1.1, theta=0.8, tau=0.5), ("tau",))]
    for bname, mk in ax_makers:
        for sname, o, keep in subjects:
            def f(o=o, mk=mk, keep=keep):
                r = o.rotate_axis(mk(), 0.7)
                ok = isinstance(r, vector.Momentum) == isinstance(o, vector.Momentum) and all(hasattr(r, k) and AR.close(AR.to_nested(getattr(r, k)), getattr(o, k)) for k in keep) and \
                    (len(keep) == 1) == hasattr(r, "t")
                for i, a in enumerate(axes):
                    e = o.rotate_axis(vector.obj(**a), 0.7)
                    ok = ok and all(AR.close(AR.to_nested(getattr(r, c))[i], getattr(e, c), 1e-9, 1e-9) for c in ("x", "y", "z"))
                return ok
            for _p in ("C03", "C05", "C10"):
                probe(_p, f"rotate_axis/object({sname})-about-{bname}-axes-keeps-dimension-and-time", f)
    # integer- / float32-typed array operands paired with an object: same result as with float64 columns of the same values
    # (a scalar that a kernel passes through from the object must keep its value whatever the dtype of the array's columns)
    o_tau = vector.obj(px=1.0, py=-2.0, pz=3.0, mass=0.75)
    o_t = vector.obj(px=1.0, py=-2.0, pz=3.0, E=4.25)
    cols64 = {"px": np.array([1.0, -2.0, 3.0]), "py": np.array([2.0, 1.0, -1.0]), "pz": np.array([-1.0, 2.0, 2.0]), "E": np.array([9.0, 8.0, 7.0])}
    for dt in (np.int64, np.float32):
        makers = [("numpy", lambda c: vector.array(c))]
        if ak is not None:
            makers.append(("awkward", lambda c: vector.zip({k: ak.Array(v) for k, v in c.items()})))
        for bname, mk in makers:
            ref_b, typed_b = mk(cols64), mk({k: v.astype(dt) for k, v in cols64.items()})
            for oname, o in (("tau-stored", o_tau), ("t-stored", o_t)):
                for mname in ("boost_p4", "boostCM_of_p4", "add", "subtract"):
                    def f(mname=mname, o=o, ref_b=ref_b, typed_b=typed_b):
                        r1, r2 = getattr(o, mname)(ref_b), getattr(o, mname)(typed_b)
                        return all(AR.close(AR.to_nested(getattr(r1, c)), AR.to_nested(getattr(r2, c)), 1e-6, 1e-6) for c in ("x", "y", "z", "t", "tau"))
                    for _p in ("C03", "C01", "C09"):
                        probe(_p, f"typed-columns/{mname}/object({oname})-with-{bname}-{np.dtype(dt).name}", f)
    return out
