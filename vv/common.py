"""Shared plumbing of the checks: evidence files, replay files, known findings, exit codes, process pool."""
from __future__ import annotations

import hashlib
import json
import multiprocessing as mp
import os
import re
import subprocess
import sys
import time

ROOT = os.path.dirname(os.path.dirname(os.path.abspath(__file__)))
REPO = os.environ.get("VERIF_REPO", "/repo")
# development runs against a scratch copy (VERIF_REPO=...) must not overwrite the evidence of /repo
_SCRATCH = os.path.realpath(REPO) != "/repo" or os.environ.get("VERIF_SCRATCH") == "1"
EVIDENCE_DIR = os.path.join(ROOT, "evidence") if not _SCRATCH else "/var/tmp/vv_scratch_evidence"
REPLAY_DIR = os.path.join(ROOT, "replay") if not _SCRATCH else "/var/tmp/vv_scratch_replay"
KNOWN = os.path.join(ROOT, "known_findings.json")

EXIT_OK, EXIT_VIOLATION, EXIT_UNDECIDED, EXIT_ERROR = 0, 1, 2, 3


def seed():
    try:
        return int(os.environ.get("VERIF_SEED", "0") or 0)
    except ValueError:
        return 0


def tier():
    t = os.environ.get("VERIF_TIER", "quick")
    return t if t in ("quick", "thorough") else "quick"


def repo_head():
    try:
        return subprocess.run(["git", "-C", REPO, "rev-parse", "--short", "HEAD"], capture_output=True, text=True).stdout.strip()
    except Exception:
        return "?"


def repo_dirty():
    try:
        return bool(subprocess.run(["git", "-C", REPO, "status", "--porcelain", "--untracked-files=no"], capture_output=True, text=True).stdout.strip())
    except Exception:
        return False


def pool_map(fn, jobs, procs=None, chunksize=1):
    procs = procs or min(16, os.cpu_count() or 4)
    if len(jobs) <= 1 or procs <= 1:
        return [fn(j) for j in jobs]
    ctx = mp.get_context("fork")
    with ctx.Pool(procs) as pool:
        return pool.map(fn, jobs, chunksize=chunksize)


def rerun_unknown(fn, jobs, results, factor=4, procs=4, limit=64):
    """second chance for jobs that came back with an undecided obligation: solver budgets are wall-clock, so a busy machine can turn a 0.3 s query into
    a timeout.  Those jobs are run again, few at a time, with `factor` times the budget; a result is replaced only by one with fewer undecided
    obligations.  Returns (results, number of jobs re-run).  Verdicts (`unsat` / replayed counterexample) are never derived from a timeout."""
    def unknowns(r):
        # solver-undecided only: a subset escape (function outside the executable subset, symbolic execution over its time budget) does not change with a larger solver budget
        return sum(1 for o in r.get("obligations", []) if o.get("status") == "unknown" and o.get("kind") != "subset") if isinstance(r, dict) else 0
    idx = [i for i, r in enumerate(results) if unknowns(r)]
    if not idx or len(idx) > limit:
        return results, 0
    from . import prover as PR
    old = PR.Z3_TIMEOUT_MS, PR.CVC5_TIMEOUT_MS
    PR.Z3_TIMEOUT_MS, PR.CVC5_TIMEOUT_MS = old[0] * factor, old[1] * factor
    try:
        new = pool_map(fn, [jobs[i] for i in idx], procs=procs)
    finally:
        PR.Z3_TIMEOUT_MS, PR.CVC5_TIMEOUT_MS = old
    results = list(results)
    for i, r in zip(idx, new):
        if isinstance(r, dict) and r.get("status") != "error" and unknowns(r) < unknowns(results[i]):
            r["second_chance"] = True
            results[i] = r
    return results, len(idx)


# --------------------------------------------------------------------------------------------- known findings
def load_known():
    try:
        return json.load(open(KNOWN))
    except FileNotFoundError:
        return {"findings": []}


def match_known(prop, oid, cx=None):
    """an *open* finding that lists this failing obligation (and, when given, its characterising input condition)"""
    for f in load_known().get("findings", []):
        if f.get("property") != prop or f.get("status") != "open":
            continue
        if not re.fullmatch(f["obligation"], oid):
            continue
        cond = f.get("input_condition")
        if cond and cx is not None:
            try:
                if not eval(cond, {"__builtins__": {}}, {"cx": cx, "float": float, "abs": abs, "all": all, "any": any, "len": len, "str": str}):
                    continue
            except Exception:
                continue
        return f
    return None


# --------------------------------------------------------------------------------------------- replay files
def write_replay(prop, oid, payload):
    os.makedirs(REPLAY_DIR, exist_ok=True)
    h = hashlib.sha1((prop + oid + json.dumps(payload, sort_keys=True, default=str)).encode()).hexdigest()[:10]
    path = os.path.join(REPLAY_DIR, f"{prop}_{h}.json")
    payload = dict(payload)
    payload.update(property=prop, obligation=oid, repo_head=repo_head(), repo_dirty=repo_dirty(),
                   replay_cmd=f"./check {prop} --replay {os.path.relpath(path, ROOT)}")
    with open(path, "w") as fh:
        json.dump(payload, fh, indent=1, default=str)
    return os.path.relpath(path, ROOT)


# --------------------------------------------------------------------------------------------- evidence
def write_evidence(prop, level, coverage, assumptions, wall, violations, extra=None):
    os.makedirs(EVIDENCE_DIR, exist_ok=True)
    ev = dict(property_id=prop, tier=tier(), seed=seed(), level=level, coverage=coverage, assumptions=assumptions,
              wall_s=round(wall, 2), violations=violations)
    if extra:
        ev.update(extra)
    path = os.path.join(EVIDENCE_DIR, f"{prop}.json")
    tmp = path + ".tmp"
    with open(tmp, "w") as fh:
        json.dump(ev, fh, indent=1, default=str)
    os.replace(tmp, path)
    return path


class Report:
    """collects the outcome of one check run and turns it into stdout lines, evidence and an exit code"""

    def __init__(self, prop):
        self.prop = prop
        self.t0 = time.time()
        self.violations = []      # (oid, replay_path, has_input)
        self.known = []           # (oid, text)
        self.undecided = []       # oid
        self.errors = []          # text
        self.lines = []

    def violation(self, oid, payload, has_input=True):
        path = write_replay(self.prop, oid, payload)
        self.violations.append((oid, path, has_input))
        suffix = "" if has_input else " no-failing-input-found"
        print(f"VIOLATION property={self.prop} replay={path} obligation={oid}{suffix}" if has_input
              else f"VIOLATION property={self.prop} replay={path} obligation={oid} no-failing-input-found", flush=True)

    def known_finding(self, oid, text):
        self.known.append((oid, text))
        print(f"KNOWN-FINDING: property={self.prop} {text} [{oid}]", flush=True)

    def undecided_obl(self, oid, note=""):
        self.undecided.append(oid)
        print(f"UNDECIDED: property={self.prop} obligation={oid} {note}", flush=True)

    def error(self, text):
        self.errors.append(text)
        print(f"CHECKER-ERROR: property={self.prop} {text}", flush=True)

    def exit_code(self):
        if self.errors:
            return EXIT_ERROR
        if self.violations:
            return EXIT_VIOLATION
        return EXIT_OK

    def wall(self):
        return time.time() - self.t0
