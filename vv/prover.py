"""Discharge pipeline of Engine A: slicing, z3 (QF_NRA), cvc5 second opinion, model read-back."""
from __future__ import annotations

import os
import subprocess
import zlib
import tempfile
import time
from fractions import Fraction as Fr

from . import symreal as S
from .symreal import f_vars, f_to_z3, f_not, f_and, TRUE, FALSE

Z3_TIMEOUT_MS = int(os.environ.get("VERIF_Z3_TIMEOUT_MS", "20000"))
CVC5_TIMEOUT_MS = int(os.environ.get("VERIF_CVC5_TIMEOUT_MS", "20000"))
STATS = dict(z3_calls=0, z3_time=0.0, cvc5_calls=0, cvc5_time=0.0, syntactic=0)


def CROSSCHECK_EVERY():
    v = os.environ.get("VERIF_CROSSCHECK_EVERY")
    if v is not None:
        return int(v)
    return 5 if os.environ.get("VERIF_TIER", "quick") == "thorough" else 0


def _zvars(ctx):
    import z3
    cache = {}

    def get(v):
        r = cache.get(v)
        if r is None:
            r = cache[v] = z3.Real(ctx.name(v))
        return r
    return get, cache


def slice_hyps(ctx, goal, extra=()):
    """hypotheses relevant for `goal`: everything about input variables only, plus - transitively - the *defining*
    constraints of every derived variable the goal mentions.  A constraint is the definition of the youngest derived
    variable occurring in it (definitions only refer to older variables), so facts about unrelated younger variables
    that merely mention a needed one are left out."""
    derived = set(ctx.vardef)
    need = set(f_vars(goal)) & derived
    for e in extra:
        need |= set(f_vars(e)) & derived
    chosen = []
    byowner = {}
    pre_ids = {id(h) for h in ctx.pre}
    for h in ctx.hyps:
        vs = f_vars(h) & derived
        if not vs:
            chosen.append(h)
        elif id(h) in pre_ids:
            chosen.append(h)          # the contract's precondition is always in force
            need |= vs
        else:
            byowner.setdefault(max(vs), []).append((h, vs))
    todo = sorted(need, reverse=True)
    seen = set()
    while todo:
        v = todo.pop()
        if v in seen:
            continue
        seen.add(v)
        for h, vs in byowner.get(v, ()):
            chosen.append(h)
            for w in vs:
                if w not in seen:
                    todo.append(w)
    return chosen


def check_sat(ctx, formulas, timeout_ms=None, want_model=False):
    """z3 on the conjunction of formulas; returns (status, model|None, seconds)"""
    import z3
    get, cache = _zvars(ctx)
    s = z3.SolverFor("QF_NRA")
    s.set("timeout", timeout_ms or Z3_TIMEOUT_MS)
    for f in formulas:
        s.add(f_to_z3(f, get))
    t0 = time.time()
    r = s.check()
    dt = time.time() - t0
    STATS["z3_calls"] += 1
    STATS["z3_time"] += dt
    model = None
    if r == z3.sat and want_model:
        m = s.model()
        model = {}
        for v, zv in cache.items():
            val = m.eval(zv, model_completion=True)
            model[v] = _z3num(val)
    return str(r), model, dt, s


def _z3num(val):
    import z3
    if z3.is_rational_value(val):
        return Fr(val.numerator_as_long(), val.denominator_as_long())
    if z3.is_algebraic_value(val):
        a = val.approx(30)
        return Fr(a.numerator_as_long(), a.denominator_as_long())
    try:
        return Fr(str(val))
    except Exception:
        return None


def cvc5_check(smt2_text, timeout_ms=None):
    """second opinion with the cvc5 binary; returns 'unsat' | 'sat' | 'unknown'"""
    t0 = time.time()
    STATS["cvc5_calls"] += 1
    try:
        p = subprocess.run(["/usr/bin/cvc5", "--lang=smt2", f"--tlimit={timeout_ms or CVC5_TIMEOUT_MS}", "--nl-ext-tplanes"],
                           input=smt2_text, capture_output=True, text=True, timeout=(timeout_ms or CVC5_TIMEOUT_MS) / 1000 + 10)
        out = p.stdout.strip().splitlines()
        r = out[0].strip() if out else "unknown"
    except Exception:
        r = "unknown"
    STATS["cvc5_time"] += time.time() - t0
    return r if r in ("sat", "unsat") else "unknown"


def prove(ctx, goal, extra=(), timeout_ms=None, use_cvc5=True, want_model=True, splits=()):
    """try to show hyps(ctx) ∧ extra ⊨ goal.  returns dict(status=proved|refuted|unknown, by=..., model=..., t=...)"""
    if goal == TRUE:
        STATS["syntactic"] += 1
        return dict(status="proved", by="normal-form", t=0.0)
    hyps = slice_hyps(ctx, goal, extra) + list(extra)
    if goal == FALSE:
        # only provable if the hypotheses are contradictory; treat as refutable by any model of the hypotheses
        st, model, dt, _ = check_sat(ctx, hyps, timeout_ms, want_model)
        if st == "unsat":
            return dict(status="proved", by="z3(vacuous)", t=dt)
        return dict(status="refuted" if st == "sat" else "unknown", by="z3", model=model, t=dt)
    st, model, dt, solver = check_sat(ctx, hyps + [f_not(goal)], timeout_ms, want_model)
    if st == "unsat":
        every = CROSSCHECK_EVERY()
        if every:
            # independent confirmation of a sample of z3's `unsat` answers by cvc5 (thorough tier): a `sat` from cvc5 withdraws the proof
            text = "(set-logic QF_NRA)\n" + solver.to_smt2().replace("(set-info :status unknown)", "")
            if zlib.crc32(text.encode()) % every == 0:
                r = cvc5_check(text, 5000)
                if r == "sat":
                    STATS["cross_disagree"] = STATS.get("cross_disagree", 0) + 1
                    return dict(status="unknown", by="z3 says unsat, cvc5 says sat (DISAGREEMENT)", t=dt)
                return dict(status="proved", by="z3+cvc5" if r == "unsat" else "z3 (cvc5: no answer in 5 s)", t=dt)
        return dict(status="proved", by="z3", t=dt)
    if st == "sat":
        return dict(status="refuted", by="z3", model=model, t=dt)
    total = dt
    # case splits declared by the contract
    for split in splits:
        allok = True
        for case in split:
            st2, _, dt2, _ = check_sat(ctx, hyps + [case, f_not(goal)], timeout_ms, False)
            total += dt2
            if st2 != "unsat":
                allok = False
                break
        if allok:
            return dict(status="proved", by="z3+split", t=total)
    if use_cvc5:
        text = "(set-logic QF_NRA)\n" + solver.to_smt2().replace("(set-info :status unknown)", "")
        r = cvc5_check(text, timeout_ms)
        if r == "unsat":
            return dict(status="proved", by="cvc5", t=total)
    return dict(status="unknown", by="z3,cvc5", t=total)


def satisfiable(ctx, formulas, timeout_ms=10000):
    st, model, dt, _ = check_sat(ctx, formulas, timeout_ms, True)
    return st, model


def radical_tactic(ctx, goal, extra=(), timeout_ms=None):
    """goal  K*r - P == 0  with r the youngest radical (r >= 0, r^2 = E) occurring linearly and K of known strict sign:
    it suffices that  P/K >= 0  and  P^2 == K^2 * E   (both sides non-negative with equal squares)."""
    from .poly import Poly
    from .symreal import f_rel
    if goal[0] != "rel" or goal[1] != "==":
        return None
    g = goal[2]
    rads = sorted([v for v in g.vars() if v in ctx.radicals], reverse=True)
    for r in rads[:2]:
        K = {}
        P = {}
        ok = True
        for m, c in g.t.items():
            e = dict(m).get(r, 0)
            if e == 0:
                P[m] = -c
            elif e == 1:
                K[tuple((v, k) for v, k in m if v != r)] = c
            else:
                ok = False
                break
        if not ok or not K:
            continue
        K, P = Poly(K), Poly(P)
        sK = ctx.poly_sign(K)
        if sK not in ("+", "-"):
            continue
        if sK == "-":
            K, P = -K, -P
        sq = ctx.reduce(P * P - K * K * ctx.radicals[r])
        t = 0.0
        if not sq.is_zero():
            r1 = prove(ctx, f_rel(sq, "=="), extra, timeout_ms, use_cvc5=False, want_model=False)
            t += r1["t"]
            if r1["status"] != "proved":
                continue
        sP = ctx.poly_sign(P)
        if sP not in ("+", "0+"):
            r2 = prove(ctx, f_rel(P, ">="), extra, timeout_ms, use_cvc5=False, want_model=False)
            t += r2["t"]
            if r2["status"] != "proved":
                continue
        return dict(status="proved", by="radical-squaring+z3", t=t)
    return None
