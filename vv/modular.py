"""Modular mode of Engine A: inside the function under proof every *callee that has its own contract* (every entry of
every live dispatch_map) is replaced by that contract,

    F_sig(stored)  ==  encode(declared_out, F_cartesian(view(stored)))          (the C01 form)

so the caller is checked against the callee's contract, not its body.  The callee's body is unfolded only in the job that
proves the callee's own contract (each entry is such a job in every run of C01).  The stubs act only for the symbolic
`lib`; with a numeric `lib` (replay, cross-check) they fall through to the original function.

Replacement is done on module attributes and closure cells of the live `vector._compute` modules, inside the checker
process only.  `dispatch_map` tuples keep the original function objects - that is where jobs fetch the function under proof.
"""
from __future__ import annotations

import os
import types
from fractions import Fraction as Fr

from . import symreal as S
from . import ops as OPS
from .symreal import A, Ang, Lg, LIB
from .views import (AZ, LO, TE, AzimuthalXY, AzimuthalRhoPhi, LongitudinalZ, LongitudinalTheta, LongitudinalEta,
                    TemporalT, TemporalTau, groups, ncoords, cart_of, view)

_installed = False
ORIG = {}      # stub -> original
STUBS = {}     # original -> stub
INLINE = os.environ.get("VERIF_INLINE", "0") == "1"


def encode(classes, cart):
    """Cartesian components -> coordinates in the system `classes` (spec-level inverse of `view`);
    emits 'representable' obligations at the call site"""
    ctx = S.CTX
    X, Y = A.of(cart[0]), A.of(cart[1])
    out = []
    rho = None
    if classes[0] is AzimuthalXY:
        out += [X, Y]
    else:
        rho = LIB.sqrt(X * X + Y * Y)
        phi = LIB.arctan2(Y, X)
        out += [rho, phi]
    if len(classes) >= 2:
        Z = A.of(cart[2])
        l = classes[1]
        if l is LongitudinalZ:
            out.append(Z)
        else:
            if rho is None:
                rho = LIB.sqrt(X * X + Y * Y)
            if rho.sign() != "+":
                ctx.need("callee contract: result off the z axis", rho.rel(">"))
            M = LIB.sqrt(X * X + Y * Y + Z * Z)
            if l is LongitudinalTheta:
                key = ("enc-theta",) + Z.key() + rho.key()
                if key not in ctx.memo:
                    name = ctx.fresh_atom("thetaOf")
                    ctx.ranges[name] = (Fr(0), Fr(1))
                    ctx.atomval[name] = (lambda env, Z=Z, M=M: S._mp().acos(Z.num(env) / M.num(env)))
                    th = Ang(Z * M.recip(), rho * M.recip(), {name: Fr(1)})
                    th.tanhalf = rho * (M + Z).recip()
                    ctx.memo[key] = th
                out.append(ctx.memo[key])
            else:
                out.append(Lg([(Fr(1), (Z + M) * rho.recip())]))
    # the callee's postcondition  view(result) == cart  travels with the coordinates
    from .views import vkey, SHORT
    cache = ctx.__dict__.setdefault("viewcache", {})
    if classes[0] is AzimuthalRhoPhi:
        cache[("az", vkey(out[0]), vkey(out[1]))] = (X, Y)
    if len(classes) >= 2 and classes[1] is not LongitudinalZ:
        cache[("lo", SHORT[classes[0]], SHORT[classes[1]], vkey(out[0]), vkey(out[1]), vkey(out[2]))] = A.of(cart[2])
    if len(classes) >= 3:
        T = A.of(cart[3])
        if classes[2] is TemporalT:
            out.append(T)
        else:
            Z = A.of(cart[2])
            s2 = T * T - (X * X + Y * Y + Z * Z)
            tau_out = LIB.copysign(LIB.sqrt(LIB.absolute(s2)), s2)
            out.append(tau_out)
            if T.sign() != "+":
                ctx.need("callee contract: result time > 0 (representable with tau)", T.rel(">"))
            cache[("te", vkey(X), vkey(Y), vkey(Z), vkey(A.of(tau_out)))] = T
    return out


def _make_stub(mod, sig, fn, returns):
    csig = cart_of(sig)
    vs = groups(sig)
    nc = sum(ncoords(v) for v in vs)
    scalar = returns in ([float], [bool])
    oc = None if scalar else [r for r in returns if r is not None]

    def stub(lib, *args):
        if not isinstance(lib, S.Lib) or S.CTX is None:
            return fn(lib, *args)
        cfn, *cret = mod.dispatch_map[csig]
        nscal = len(args) - nc
        scal = list(args[:nscal])
        rest = list(args[nscal:])
        flat = []
        for v in vs:
            k = ncoords(v)
            flat += view(v, rest[:k])
            rest = rest[k:]
        r = cfn(lib, *scal, *flat)
        if scalar:
            return r
        rc = [c for c in cret if c is not None]
        r = r if isinstance(r, tuple) else (r,)
        cart = view(rc, list(r))        # the Cartesian variant may itself declare a non-Cartesian output
        if oc == rc:
            return tuple(r)
        return tuple(encode(oc, cart))

    stub.__name__ = "contract_of_" + fn.__name__
    stub.__wrapped_original__ = fn
    return stub


def ensure_installed():
    global _installed
    if _installed or INLINE:
        return
    _installed = True
    mods = OPS.all_modules()
    for pk, n, m in mods:
        if n == "isclose":
            # the C01-form contract of isclose is only claimed (and only true) for rtol = atol = 0: it cannot stand in
            # for the body at call sites with arbitrary tolerances, so isclose variants are always unfolded
            continue
        for sig, (fn, *ret) in m.dispatch_map.items():
            if cart_of(sig) == tuple(sig):
                continue
            if fn in STUBS:
                continue
            st = _make_stub(m, sig, fn, ret)
            STUBS[fn] = st
            ORIG[st] = fn
    import inspect
    import vector._compute.planar as P
    import vector._compute.spatial as SP
    import vector._compute.lorentz as L
    allmods = []
    for pkg in (P, SP, L):
        for _, m in inspect.getmembers(pkg, inspect.ismodule):
            if m.__name__.startswith("vector._compute."):
                allmods.append(m)
    for m in allmods:
        for k, v in list(vars(m).items()):
            if isinstance(v, types.FunctionType) and v in STUBS:
                setattr(m, k, STUBS[v])
        for k, v in list(vars(m).items()):
            if isinstance(v, types.FunctionType) and getattr(v, "__closure__", None):
                _patch_closure(v)
        if hasattr(m, "dispatch_map"):
            for sig, (fn, *ret) in m.dispatch_map.items():
                _patch_closure(fn)
    install_kernel_stubs()


def _patch_closure(fn):
    if not fn.__closure__ or hasattr(fn, "__wrapped_original__"):
        return
    for cell in fn.__closure__:
        try:
            c = cell.cell_contents
        except ValueError:
            continue
        if isinstance(c, types.FunctionType) and c in STUBS:
            cell.cell_contents = STUBS[c]


# ------------------------------------------------------------------------------------------------ kernel contracts
# The tau-keeping boost kernels are contracted callees too (DESIGN 2.1 "kernel contracts at parameter level"):
#
#   K_tau(x, y, z, tau, *params)  ==  ( K_t(x, y, z, T, *params)[0:3],  tau )      with  T = t-view of (x, y, z, tau)
#   and   t-view( K_tau(...) )     ==  K_t(x, y, z, T, *params)[3]                  (interval invariance), if that is > 0
#
# under the kernel's own `requires` (KERNELS[...]["requires"]).  Each is proved once on plain variables by a KernelJob
# (enginea.KernelJob); callers only have to establish the `requires`.
KERNELS = {
    ("lorentz", "boost_beta3"): dict(tau="cartesian_tau", t="cartesian_t", params=("betax", "betay", "betaz")),
    ("lorentz", "boost_p4"): dict(tau="cartesian_tau", t="cartesian_t", params=("energy", "mass", "mass2", "x2", "y2", "z2")),
}
KERNEL_ORIG = {}
NO_KERNEL_STUB = False


def kernel_requires(key, params):
    """the kernel's precondition as formulas over its (symbolic) parameters"""
    if key == ("lorentz", "boost_beta3"):
        bx, by, bz = [A.of(p) for p in params]
        return [("|beta| < 1", (bx * bx + by * by + bz * bz).rel("<", 1))]
    if key == ("lorentz", "boost_p4"):
        e, m, m2, x2, y2, z2 = [A.of(p) for p in params]
        return [("mass > 0", m.rel(">")), ("energy > 0", e.rel(">")), ("mass2 == mass^2", m2.rel("==", m * m)),
                ("energy^2 == mass^2 + |p|^2", (e * e).rel("==", m * m + x2 * x2 + y2 * y2 + z2 * z2))]
    return []


def _make_kernel_stub(key, spec, mod):
    ftau = getattr(mod, spec["tau"])
    ft = getattr(mod, spec["t"])
    KERNEL_ORIG[key] = (ftau, ft)

    def kstub(lib, x1, y1, z1, tau1, *params):
        if not isinstance(lib, S.Lib) or S.CTX is None or NO_KERNEL_STUB:
            return ftau(lib, x1, y1, z1, tau1, *params)
        ctx = S.CTX
        for desc, f in kernel_requires(key, params):
            if f != S.TRUE:
                ctx.need(f"kernel contract {mod.__name__}.{spec['tau']} requires {desc}", f)
        x1, y1, z1, tau1 = A.of(x1), A.of(y1), A.of(z1), A.of(tau1)
        T = LIB.sqrt(LIB.maximum(LIB.copysign(tau1 * tau1, tau1) + (x1 * x1 + y1 * y1 + z1 * z1), 0))
        r = ft(lib, x1, y1, z1, T, *params)
        from .views import vkey
        cache = ctx.__dict__.setdefault("viewcache", {})
        tp = A.of(r[3])
        if tp.sign() != "+":
            ctx.need(f"kernel contract {mod.__name__}.{spec['tau']}: boosted time > 0 (result representable with tau)", tp.rel(">"))
        cache[("te", vkey(A.of(r[0])), vkey(A.of(r[1])), vkey(A.of(r[2])), vkey(tau1))] = tp
        return (r[0], r[1], r[2], tau1)

    kstub.__name__ = "contract_of_" + spec["tau"]
    kstub.__wrapped_original__ = ftau
    return kstub


def install_kernel_stubs():
    import importlib
    for key, spec in KERNELS.items():
        mod = importlib.import_module(f"vector._compute.{key[0]}.{key[1]}")
        if hasattr(getattr(mod, spec["tau"]), "__wrapped_original__"):
            continue
        setattr(mod, spec["tau"], _make_kernel_stub(key, spec, mod))
