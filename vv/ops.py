"""Operation metadata for Engine A: scalar parameters, domains of definition (`requires`), case splits.

Everything here is written from the documentation of the operations (VectorProtocol* docstrings, docs/index.md)
and from the property statements - it is the specification side of the contracts.
"""
from __future__ import annotations

import inspect
from fractions import Fraction as Fr

from . import symreal as S
from .symreal import A, f_and, f_or, f_rel, TRUE
from .views import (AZ, LO, TE, AzimuthalXY, AzimuthalRhoPhi, LongitudinalZ, LongitudinalTheta, LongitudinalEta,
                    TemporalT, TemporalTau, groups, ncoords, cart_of, is_cart, sig_str)


def all_modules():
    import vector._compute.planar as P
    import vector._compute.spatial as SP
    import vector._compute.lorentz as L
    out = []
    for pk, pkg in (("planar", P), ("spatial", SP), ("lorentz", L)):
        for n, m in inspect.getmembers(pkg, inspect.ismodule):
            if m.__name__.startswith("vector._compute.") and hasattr(m, "dispatch_map"):
                out.append((pk, n, m))
    return out


def census():
    return {(pk, n): len(m.dispatch_map) for pk, n, m in all_modules()}


ANGLE_PARAMS = {"angle", "phi", "theta", "psi"}


def scalar_params(modname, cart_fn, nvec_coords):
    """names of the scalar parameters of an operation (everything between `lib` and the vector coordinates)"""
    ps = list(inspect.signature(cart_fn).parameters)[1:]
    return ps[: len(ps) - nvec_coords]


def scalar_cases(pk, modname, names, prop="C01"):
    """list of cases; each case: dict name -> kind ('angle','real','pos','neg','nonneg','zero', ('const',v))"""
    base = {}
    for n in names:
        if modname.startswith("rotate") and n in ANGLE_PARAMS:
            base[n] = "angle"
        elif n == "equal_nan":
            base[n] = ("const", False)
        elif n in ("rtol", "atol"):
            # C01 only demands the tolerance-free core of isclose (DESIGN C01); C12 poses the tolerance clauses
            base[n] = ("const", 0)
        else:
            base[n] = "real"
    cases = [("", base)]
    if modname == "scale":
        cases = [("factor>0", dict(base, factor="pos")), ("factor<0", dict(base, factor="neg"))]
    if modname in ("boostX_gamma", "boostY_gamma", "boostZ_gamma"):
        cases = [("gamma>=1", dict(base, gamma="real")), ("gamma<=-1", dict(base, gamma="real"))]
    return cases


def op_requires(pk, modname, case, scal, views, prop="C01"):
    """domain of the operation's definition, as formulas over the Cartesian views of the operands and the scalars"""
    R = []

    def rho2(v):
        return v[0] * v[0] + v[1] * v[1]

    def mag2(v):
        return rho2(v) + v[2] * v[2]

    def gt0(e):
        return A.of(e).rel(">")

    if modname in ("phi",):
        R.append(gt0(rho2(views[0])))
    if modname == "deltaphi":
        R += [gt0(rho2(v)) for v in views]
    if pk == "planar" and modname == "unit":
        R.append(gt0(rho2(views[0])))
    if pk == "spatial":
        if modname in ("theta", "costheta"):
            R.append(gt0(mag2(views[0])))
        if modname in ("eta", "cottheta"):
            R.append(gt0(rho2(views[0])))
        if modname in ("deltaeta", "deltaR", "deltaR2"):
            R += [gt0(rho2(v)) for v in views]
        if modname in ("deltaangle",):
            R += [gt0(mag2(v)) for v in views]
        if modname == "unit":
            R.append(gt0(mag2(views[0])))
        if modname == "rotate_axis":
            R.append(gt0(mag2(views[0])))        # the first vector argument is the axis
        if modname == "rotate_quaternion" and prop in ("C02", "C10"):
            q = [scal[n] for n in ("u", "i", "j", "k")]
            R.append((q[0] * q[0] + q[1] * q[1] + q[2] * q[2] + q[3] * q[3]).rel("==", 1))      # the definition is for unit quaternions
    if pk == "lorentz":
        v = views[0]
        if modname in ("beta", "to_beta3"):
            R.append(A.of(v[3]).rel("!="))
        if modname == "gamma":
            R.append((v[3] * v[3] - mag2(v)).rel(">"))      # timelike: tau real and non-zero
        if modname == "rapidity":
            R += [(v[3] - v[2]).rel(">"), (v[3] + v[2]).rel(">")]
        if modname in ("deltaRapidityPhi", "deltaRapidityPhi2"):
            for w in views:
                R += [(w[3] - w[2]).rel(">"), (w[3] + w[2]).rel(">"), gt0(rho2(w))]
        if modname in ("Et", "Et2"):
            R.append(gt0(mag2(v)))
        if modname == "Mt":
            R.append((v[3] * v[3] - v[2] * v[2]).rel(">="))
        if modname == "unit":
            R.append((v[3] * v[3] - mag2(v)).rel("!="))
        if modname in ("boostX_beta", "boostY_beta", "boostZ_beta"):
            b = scal["beta"]
            R.append((b * b).rel("<", 1))
        if modname in ("boostX_gamma", "boostY_gamma", "boostZ_gamma"):
            g = scal["gamma"]
            R.append(g.rel(">=", 1) if case == "gamma>=1" else g.rel("<=", -1))
        if modname == "boost_beta3":
            b = views[1]
            R.append(mag2(b).rel("<", 1))
        if modname == "boost_p4":
            b = views[1]
            R += [A.of(b[3]).rel(">"), (b[3] * b[3] - mag2(b)).rel(">")]
    return R


def result_rep(out_classes, refview):
    """'the exact result is representable in the declared output system' (statement of C01)"""
    R = []
    X, Y = refview[0], refview[1]
    needs_rho = out_classes[0] is AzimuthalRhoPhi or (len(out_classes) >= 2 and out_classes[1] in (LongitudinalTheta, LongitudinalEta))
    if needs_rho:
        R.append((X * X + Y * Y).rel(">"))
    if len(out_classes) >= 3 and out_classes[2] is TemporalTau:
        # strictly positive time: at t = 0 the sign conventions of copysign(+-0) decide, a singular stratum (DESIGN C13)
        R.append(A.of(refview[3]).rel(">"))
    return R
